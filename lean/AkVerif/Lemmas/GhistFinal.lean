import AkVerif.Lemmas.GhistAttr
import AkVerif.Lemmas.GhistReach
/-!
Branch level of the semantic invariants: what the result of reading one branch means in terms of git ancestry
(`BrSem`), carried through `readBranches` to the final graph.
-/
namespace Ghist
open Ak

section
variable {π β : Type} {h : Hist π}

/-- the commit `c` is printed under the build `bd` -/
def Listed (rcs : List RC) (bd : RB β) (c : Nat) : Prop :=
  ∃ r ∈ bd.rcommits, ∃ rc, rcs[r]? = some rc ∧ rc.explicit = true ∧ rc.commit = c

/-- builds of a branch as the property defines them: tagged commits and the head, reachable from the head and
not part of a lower-sorted branch -/
def SpecBuild (h : Hist π) (pre : List Branch) (b : Branch) (e : Nat) : Prop :=
  Elig h b.head e ∧ Anc h e b.head ∧ ∀ b' ∈ pre, ¬ Anc h e b'.head

/-- what "not merged" should list: matching commits of lower-sorted branches that are not reachable from the head -/
def SpecNotMerged (h : Hist π) (pre : List Branch) (b : Branch) (c : Nat) : Prop :=
  h.isMatch c = true ∧ (∃ b' ∈ pre, Anc h c b'.head) ∧ ¬ Anc h c b.head

structure BrSem (h : Hist π) (pre : List Branch) (b : Branch) (rcs : List RC) (rb : RBranch β) : Prop where
  bound : ∀ bd ∈ rb.rbuilds, (∀ r ∈ bd.rcommits, r < rcs.length) ∧ (bd.rcommit.isSome = true → bd.iid < rcs.length)
  notMerged : ∀ bd ∈ rb.rbuilds, bd.rcommit = none → ∀ c, Listed rcs bd c ↔ SpecNotMerged h pre b c
  nmExists : ∀ c, SpecNotMerged h pre b c → ∃ bd ∈ rb.rbuilds, bd.rcommit = none
  buildSpec : ∀ bd ∈ rb.rbuilds, bd.rcommit.isSome = true → bd.rcommit = some bd.iid ∧ ∃ rc, rcs[bd.iid]? = some rc ∧
    SpecBuild h pre b rc.commit ∧
    ∀ c, Listed rcs bd c → Anc h c rc.commit ∧
      ∀ e', SpecBuild h pre b e' → Anc h c e' → Anc h e' rc.commit → e' = rc.commit
  complete : ∀ e', SpecBuild h pre b e' → ∀ c, Anc h c e' → h.isMatch c = true →
    ∃ bd ∈ rb.rbuilds, bd.rcommit.isSome = true ∧ Listed rcs bd c

theorem Listed.ext {rcs ext : List RC} {bd : RB β} (hb : ∀ r ∈ bd.rcommits, r < rcs.length) (c : Nat) :
    Listed (rcs ++ ext) bd c ↔ Listed rcs bd c := by
  constructor
  · rintro ⟨r, hr, rc, h1, h2⟩
    rw [List.getElem?_append_left (hb r hr)] at h1
    exact ⟨r, hr, rc, h1, h2⟩
  · rintro ⟨r, hr, rc, h1, h2⟩
    exact ⟨r, hr, rc, by rw [List.getElem?_append_left (hb r hr)]; exact h1, h2⟩

theorem BrSem.ext {pre : List Branch} {b : Branch} {rcs : List RC} {rb : RBranch β} (s : BrSem h pre b rcs rb)
    (ext : List RC) : BrSem h pre b (rcs ++ ext) rb := by
  refine ⟨?_, ?_, s.nmExists, ?_, ?_⟩
  · intro bd hbd
    obtain ⟨h1, h2⟩ := s.bound bd hbd
    exact ⟨fun r hr => by have := h1 r hr; simp; omega, fun hn => by have := h2 hn; simp; omega⟩
  · intro bd hbd hn c
    rw [Listed.ext (s.bound bd hbd).1 c]; exact s.notMerged bd hbd hn c
  · intro bd hbd hn
    obtain ⟨h0, rc, h1, h2, h3⟩ := s.buildSpec bd hbd hn
    refine ⟨h0, rc, by rw [List.getElem?_append_left ((s.bound bd hbd).2 hn)]; exact h1, h2, ?_⟩
    intro c hc
    exact h3 c ((Listed.ext (s.bound bd hbd).1 c).mp hc)
  · intro e' he' c hc hm
    obtain ⟨bd, hbd, hn, hl⟩ := s.complete e' he' c hc hm
    exact ⟨bd, hbd, hn, (Listed.ext (s.bound bd hbd).1 c).mpr hl⟩

/-- invariant of the repository caches between branches -/
structure RepoInv (h : Hist π) (pre : List Branch) (rp : Repo β) : Prop where
  wf : WF h ⟨rp, Br.empty⟩
  normal : BuildsNormal rp
  sem : Sem h rp
  cover : ∀ c, (∃ cl, classify rp c = some cl) ↔ ∃ b ∈ pre, Anc h c b.head

theorem classify_congr {rp rp' : Repo β} (h1 : rp'.done = rp.done) (h2 : rp'.visited = rp.visited)
    (h3 : rp'.selected = rp.selected) (c : Nat) : classify rp' c = classify rp c := by
  simp [classify, h1, h2, h3]

theorem Sem.congr {rp rp' : Repo β} (s : Sem h rp) (h1 : rp'.done = rp.done) (h2 : rp'.visited = rp.visited)
    (h3 : rp'.selected = rp.selected) (h4 : rp'.rcs = rp.rcs) : Sem h rp' := by
  have hc := classify_congr h1 h2 h3
  refine ⟨?_, ?_, ?_, ?_⟩
  · intro c cl hcl
    rw [hc] at hcl
    obtain ⟨cm, hcm, hp⟩ := s.closed c cl hcl
    exact ⟨cm, hcm, fun p hpp => by rw [hc]; exact hp p hpp⟩
  · intro x i hx
    rw [hc]; exact s.selCls x i (by simpa [selOf, h3] using hx)
  · intro c cl hcl i
    rw [hc] at hcl
    rw [h4]
    simp only [selOf, h3]
    exact s.reach c cl hcl i
  · intro c cl hcl hm
    rw [hc] at hcl
    obtain ⟨i, hi⟩ := s.matchSel c cl hcl hm
    exact ⟨i, by simpa [selOf, h3] using hi⟩

/-- the build with a given id is unique -/
theorem build?_of_mem {rp : Repo β} (hinc : (iids rp.builds).Pairwise (· < ·)) {b : RB β} (hb : b ∈ rp.builds) :
    rp.build? b.iid = some b := by
  unfold Repo.build?
  have hnd : (iids rp.builds).Nodup := by
    rw [List.nodup_iff_pairwise_ne]; exact hinc.imp (fun h => by omega)
  generalize rp.builds = l at hb hnd
  induction l with
  | nil => cases hb
  | cons x l ih =>
    simp only [iids, List.map_cons, List.nodup_cons] at hnd
    rcases List.mem_cons.mp hb with h1 | h1
    · subst h1; simp
    · have : x.iid ≠ b.iid := by
        intro he; apply hnd.1; rw [he]; exact List.mem_map.mpr ⟨b, h1, rfl⟩
      have : (x.iid == b.iid) = false := by simpa using this
      simp only [List.find?_cons, this]
      exact ih h1 hnd.2

theorem buildsOf_mem {rp : Repo β} (hinc : (iids rp.builds).Pairwise (· < ·)) :
    ∀ {is : List Nat} {bs : List (RB β)}, buildsOf rp is = some bs → ∀ b ∈ rp.builds, b.iid ∈ is → b ∈ bs := by
  intro is
  induction is with
  | nil => intro bs _ b _ hb; cases hb
  | cons i is ih =>
    intro bs hbs b hb hi
    simp only [buildsOf] at hbs
    split at hbs
    · rename_i b0 r hb0 hr
      cases hbs
      rcases List.mem_cons.mp hi with h1 | h1
      · rw [← h1, build?_of_mem hinc hb] at hb0
        cases hb0; simp
      · exact List.mem_cons_of_mem _ (ih hr b hb h1)
    · cases hbs

theorem selOf_iff_rcs {st : St β} (w : WF h st) (x i : Nat) :
    selOf st.rp x i ↔ ∃ rc, st.rp.rcs[i]? = some rc ∧ rc.commit = x := by
  constructor
  · intro hs; exact w.selOk x i hs
  · rintro ⟨rc, h1, h2⟩; rw [← h2]; exact w.rcSel i rc h1

/-- reading one branch: the repository invariant is re-established and the result means what `BrSem` says -/
theorem readBranch_sem (hT : h.Topo) {pl : Plug π β} {pre : List Branch} {rp0 : Repo β} {b : Branch}
    {rp' : Repo β} {rb : RBranch β} (inv : RepoInv h pre rp0)
    (hr : readBranch h pl pre.isEmpty rp0 b = .ok (rp', rb)) :
    RepoInv h (pre ++ [b]) rp' ∧ BrSem h pre b rp'.rcs rb ∧ ∃ ext, rp'.rcs = rp0.rcs ++ ext := by
  obtain ⟨hc0, st, rheads, hhc0, hv, he⟩ := readBranch_inv hr
  have H := attr_hyps (h := h) hT pl b.head rp0
  have hP0 : (WF h (⟨rp0, Br.empty⟩ : St β) ∧ Sem h rp0) ∧ Attr h rp0 b.head ⟨rp0, Br.empty⟩ :=
    ⟨⟨inv.wf, inv.sem⟩, attr_init rp0 b.head inv.wf⟩
  obtain ⟨⟨⟨w, sm⟩, a⟩, hQ, g⟩ := visit_ind hT H h.commits.length ⟨rp0, Br.empty⟩ [] [] b.head st rheads hP0
    (H.Qnil _ hP0) (Anc.refl _) hv
  simp only [List.nil_append] at hQ
  have hn := visit_buildsNormal hT inv.normal hv
  have hs := endBranch_spec he
  obtain ⟨seen, curBuilds, hseen, hcb, hrbuilds, hnmex⟩ := hs.seen
  have hcc : ∀ c, classify rp' c = classify st.rp c := classify_congr hs.done hs.visited hs.selected
  -- classification after the branch
  have hheadcl : ∃ cl, classify st.rp b.head = some cl := hQ.cls b.head (by simp)
  have F1 : ∀ c, (∃ cl, classify st.rp c = some cl) ↔ ∃ b' ∈ pre ++ [b], Anc h c b'.head := by
    intro c
    constructor
    · rintro ⟨cl, hcl⟩
      cases h0 : classify rp0 c with
      | some cl0 =>
        obtain ⟨b', hb', hanc⟩ := (inv.cover c).mp ⟨cl0, h0⟩
        exact ⟨b', List.mem_append_left _ hb', hanc⟩
      | none => exact ⟨b, by simp, a.newAnc c cl hcl h0⟩
    · rintro ⟨b', hb', hanc⟩
      rcases List.mem_append.mp hb' with hb' | hb'
      · obtain ⟨cl0, h0⟩ := (inv.cover c).mpr ⟨b', hb', hanc⟩
        exact ⟨cl0, g.cls c cl0 h0⟩
      · simp at hb'; subst hb'
        obtain ⟨cl, hcl⟩ := hheadcl
        exact sm.anc_classified hcl hanc
  have F2 : ∀ c, classify rp0 c = none ↔ ∀ b' ∈ pre, ¬ Anc h c b'.head := by
    intro c
    constructor
    · intro h0 b' hb' hanc
      obtain ⟨cl, hcl⟩ := (inv.cover c).mpr ⟨b', hb', hanc⟩
      rw [h0] at hcl; cases hcl
    · intro hno
      cases h0 : classify rp0 c with
      | none => rfl
      | some cl0 =>
        obtain ⟨b', hb', hanc⟩ := (inv.cover c).mp ⟨cl0, h0⟩
        exact absurd hanc (hno b' hb')
  -- reachability from the heads of the reduced graph
  have hseen_iff : ∀ i, i ∈ seen ↔ ∃ x, Anc h x b.head ∧ selOf st.rp x i := by
    intro i
    rw [reach_heads hseen i, hQ.reach i]
    simp
  -- the normal builds of the branch
  have hcurmem : ∀ bd ∈ curBuilds, bd ∈ st.rp.builds ∧ isCurBuild st.rp bd.iid = true := by
    obtain ⟨hids, hmem⟩ := buildsOf_spec hcb
    intro bd hbd
    refine ⟨hmem bd hbd, (w.curIff bd.iid).mp ?_⟩
    rw [← hids]; exact List.mem_map.mpr ⟨bd, hbd, rfl⟩
  have hsplit : ∀ bd ∈ rb.rbuilds, (bd ∈ curBuilds ∧ bd.rcommit.isSome = true) ∨
      (bd.rcommit = none ∧ bd.rcommits = (if pre.isEmpty then [] else notMerged seen 0 st.rp.rcs)) := by
    intro bd hbd
    rcases hrbuilds with h1 | ⟨fake, h1, h2, h3⟩
    · rw [h1] at hbd; exact Or.inl ⟨hbd, by rw [hn bd (hcurmem bd hbd).1]; rfl⟩
    · rw [h1] at hbd
      rcases List.mem_append.mp hbd with h4 | h4
      · exact Or.inl ⟨h4, by rw [hn bd (hcurmem bd h4).1]; rfl⟩
      · simp at h4; subst h4; exact Or.inr ⟨h2, h3⟩
  have hcursub : ∀ bd ∈ curBuilds, bd ∈ rb.rbuilds := by
    intro bd hbd
    rcases hrbuilds with h1 | ⟨fake, h1, _, _⟩
    · rw [h1]; exact hbd
    · rw [h1]; exact List.mem_append_left _ hbd
  have hnmlisted : ∀ c, (∃ r ∈ notMerged seen 0 st.rp.rcs, ∃ rc, st.rp.rcs[r]? = some rc ∧ rc.explicit = true ∧
      rc.commit = c) ↔ (h.isMatch c = true ∧ (∃ cl, classify st.rp c = some cl) ∧ ¬ Anc h c b.head) := by
    intro c
    constructor
    · rintro ⟨r, hr, rc, h1, h2, h3⟩
      obtain ⟨_, rc', h4, _, h6⟩ := (notMerged_mem seen st.rp.rcs 0 r).mp hr
      have hsel : selOf st.rp c r := (selOf_iff_rcs w c r).mpr ⟨rc, h1, h3⟩
      refine ⟨by rw [← h3, ← w.rcExp r rc h1]; exact h2, ⟨_, sm.selCls c r hsel⟩, ?_⟩
      intro hanc
      exact h6 ((hseen_iff r).mpr ⟨c, hanc, hsel⟩)
    · rintro ⟨hm, ⟨cl, hcl⟩, hna⟩
      obtain ⟨i, hi⟩ := sm.matchSel c cl hcl hm
      obtain ⟨rc, h1, h2⟩ := w.selOk c i hi
      have hex : rc.explicit = true := by rw [w.rcExp i rc h1, h2]; exact hm
      refine ⟨i, (notMerged_mem seen st.rp.rcs 0 i).mpr ⟨Nat.zero_le _, rc, by simpa using h1, hex, ?_⟩, rc, h1, hex, h2⟩
      intro hin
      obtain ⟨x, hx, hsx⟩ := (hseen_iff i).mp hin
      obtain ⟨rc', h3, h4⟩ := w.selOk x i hsx
      rw [h1] at h3; cases h3
      rw [h2] at h4; subst h4
      exact hna hx
  have hspec_nm : ∀ c, SpecNotMerged h pre b c ↔
      (h.isMatch c = true ∧ (∃ cl, classify st.rp c = some cl) ∧ ¬ Anc h c b.head) := by
    intro c
    simp only [SpecNotMerged]
    constructor
    · rintro ⟨h1, ⟨b', hb', h2⟩, h3⟩
      exact ⟨h1, (F1 c).mpr ⟨b', List.mem_append_left _ hb', h2⟩, h3⟩
    · rintro ⟨h1, h2, h3⟩
      obtain ⟨b', hb', h4⟩ := (F1 c).mp h2
      rcases List.mem_append.mp hb' with hb' | hb'
      · exact ⟨h1, ⟨b', hb', h4⟩, h3⟩
      · simp at hb'; subst hb'; exact absurd h4 h3
  refine ⟨⟨endBranch_wf w he, ?_, sm.congr hs.done hs.visited hs.selected hs.rcs, ?_⟩, ?_, ?_⟩
  · intro bd hbd; rw [hs.builds] at hbd; exact hn bd hbd
  · intro c; simp only [hcc]; exact F1 c
  · -- BrSem
    rw [hs.rcs]
    refine ⟨?_, ?_, ?_, ?_, ?_⟩
    · -- bounds
      intro bd hbd
      rcases hsplit bd hbd with ⟨h1, h2⟩ | ⟨h1, h2⟩
      · obtain ⟨h3, h4⟩ := hcurmem bd h1
        have hblt := w.bldLt bd h3
        refine ⟨?_, fun _ => hblt⟩
        intro r hr
        rcases (w.lstOk bd h3 h4).2 r hr with h5 | h5
        · rw [h5]; exact hblt
        · exact (w.keyOk r h5).1
      · refine ⟨?_, fun hsome => by rw [h1] at hsome; cases hsome⟩
        intro r hr
        rw [h2] at hr
        split at hr
        · cases hr
        · obtain ⟨_, rc, h3, _⟩ := (notMerged_mem seen st.rp.rcs 0 r).mp hr
          exact (List.getElem?_eq_some_iff.mp h3).1
    · -- not merged
      intro bd hbd hnone c
      rcases hsplit bd hbd with ⟨_, h2⟩ | ⟨_, h2⟩
      · rw [hnone] at h2; cases h2
      · rw [hspec_nm c]
        simp only [Listed, h2]
        by_cases hpe : pre.isEmpty = true
        · simp only [hpe, if_true, List.not_mem_nil, false_and, exists_false, false_iff]
          rintro ⟨h1, h3, h4⟩
          obtain ⟨b', hb', h5⟩ := (F1 c).mp h3
          have : pre = [] := by simpa using hpe
          subst this
          simp at hb'; subst hb'
          exact h4 h5
        · simp only [hpe, if_false]
          exact hnmlisted c
    · -- the pseudo build exists when it has something to list
      intro c hc
      have hc' := (hspec_nm c).mp hc
      obtain ⟨r, hr, _⟩ := (hnmlisted c).mpr hc'
      obtain ⟨_, ⟨b', hb', _⟩, _⟩ := hc
      have hpe : pre.isEmpty = false := by cases pre <;> simp_all
      obtain ⟨fake, hfk⟩ := hnmex hpe (by intro hnil; rw [hnil] at hr; cases hr)
      rcases hrbuilds with h1 | ⟨fake', h1, h2, _⟩
      · exfalso
        rw [h1] at hfk
        have := congrArg List.length hfk
        simp at this
      · exact ⟨fake', by rw [h1]; simp, h2⟩
    · -- builds
      intro bd hbd hsome
      rcases hsplit bd hbd with ⟨h1, _⟩ | ⟨h1, _⟩
      · obtain ⟨h3, h4⟩ := hcurmem bd h1
        obtain ⟨rc, hrc, hel, h0⟩ := a.buildAt bd h3 h4
        have hselb : selOf st.rp rc.commit bd.iid := (selOf_iff_rcs w _ _).mpr ⟨rc, hrc, rfl⟩
        have hclb := sm.selCls _ _ hselb
        refine ⟨hn bd h3, rc, hrc, ⟨hel, a.newAnc _ _ hclb h0, (F2 _).mp h0⟩, ?_⟩
        rintro c ⟨r, hr, rcr, h5, h6, h7⟩
        constructor
        · have hreach := a.under bd h3 h4 r hr
          obtain ⟨x, hx, hsx⟩ := (sm.reach _ _ hclb r).mp ⟨bd.iid, by simp [clsList], hreach⟩
          obtain ⟨rc', h8, h9⟩ := w.selOk x r hsx
          rw [h5] at h8; cases h8
          rw [h7] at h9; subst h9
          exact hx
        · intro e' ⟨hel', _, hno'⟩ hce' hee'
          apply Classical.byContradiction
          intro hne
          have := a.minimal bd h3 h4 rc hrc r hr rcr h5 h6 e' hel' ((F2 e').mpr hno') hee' hne
          rw [h7] at this
          exact this hce'
      · rw [h1] at hsome; cases hsome
    · -- completeness
      intro e' ⟨hel', hanc', hno'⟩ c hc hm
      obtain ⟨cle, hcle⟩ := (F1 e').mpr ⟨b, by simp, hanc'⟩
      obtain ⟨i, hi, hcov⟩ := a.elig e' cle hcle ((F2 e').mpr hno') hel' c hc hm
      obtain ⟨rc, h1, h2⟩ := w.selOk c i hi
      have hex : rc.explicit = true := by rw [w.rcExp i rc h1, h2]; exact hm
      obtain ⟨bd, hbd, hcur, hib⟩ := a.listed i hcov ⟨rc, h1, hex⟩
      have hbdcur : bd ∈ curBuilds := buildsOf_mem w.bldInc hcb bd hbd ((w.curIff bd.iid).mpr hcur)
      exact ⟨bd, hcursub bd hbdcur, by rw [hn bd hbd]; rfl, i, hib, rc, h1, hex, h2⟩
  · obtain ⟨ext, hext⟩ := g.rcs
    exact ⟨ext, by rw [hs.rcs]; exact hext⟩

theorem sem_empty : Sem h (Repo.empty : Repo β) := by
  have hc : ∀ c, classify (Repo.empty : Repo β) c = none := by intro c; simp [classify, Repo.empty]
  refine ⟨?_, ?_, ?_, ?_⟩
  · intro c cl hcl; rw [hc] at hcl; cases hcl
  · intro x i hx; simp [selOf, Repo.empty] at hx
  · intro c cl hcl; rw [hc] at hcl; cases hcl
  · intro c cl hcl; rw [hc] at hcl; cases hcl

theorem repoInv_empty : RepoInv h [] (Repo.empty : Repo β) :=
  { wf := wf_empty
    normal := by intro b hb; simp [Repo.empty] at hb
    sem := sem_empty
    cover := by intro c; simp [classify, Repo.empty] }

/-- the meaning of every branch of the final graph -/
theorem rgraph_sem (hT : h.Topo) {pl : Plug π β} {g : Graph β} {mt : Option Nat} (hg : rgraphNW h pl mt = .ok g) :
    g.all.length = (branchesOf h).length ∧
    ∀ j b rb, (branchesOf h)[j]? = some b → g.all[j]? = some rb →
      BrSem h ((branchesOf h).take j) b g.rcs rb ∧ rb.name = b.name := by
  unfold rgraphNW at hg
  split at hg
  · cases hg
  · rename_i rp rbs hr
    cases hg
    have hstep : ∀ (pre : List Branch) (rp : Repo β) (b : Branch) (rp' : Repo β) (rb : RBranch β),
        RepoInv h pre rp → readBranch h pl pre.isEmpty rp b = .ok (rp', rb) →
        RepoInv h (pre ++ [b]) rp' ∧ (BrSem h pre b rp'.rcs rb ∧ rb.name = b.name) ∧
          ∃ ext, rp'.rcs = rp.rcs ++ ext := by
      intro pre rp b rp' rb inv hrb
      obtain ⟨h1, h2, h3⟩ := readBranch_sem hT inv hrb
      obtain ⟨hc0, st, rheads, hhc0, _, he⟩ := readBranch_inv hrb
      exact ⟨h1, ⟨h2, (endBranch_spec he).name⟩, h3⟩
    obtain ⟨_, _, hlen, hF⟩ := readBranches_ind2 (RepoInv h)
      (fun pre b rp' rb => BrSem h pre b rp'.rcs rb ∧ rb.name = b.name)
      (fun rp rp' => ∃ ext, rp'.rcs = rp.rcs ++ ext) (fun rp => ⟨[], by simp⟩)
      (by
        rintro a b c ⟨e1, h1⟩ ⟨e2, h2⟩
        exact ⟨e1 ++ e2, by rw [h2, h1]; simp⟩)
      hstep (branchesOf h) [] Repo.empty rp rbs repoInv_empty hr
    refine ⟨hlen, ?_⟩
    intro j b rb hb hrb
    obtain ⟨rpj, ⟨h1, h2⟩, ⟨ext, hext⟩⟩ := hF j b rb hb hrb
    simp only [List.nil_append] at h1
    exact ⟨by rw [hext]; exact h1.ext ext, h2⟩

end

end Ghist
