import AkVerif.Model.Ghist
/-!
Model of the multi-repository part of `/repo/ak/ghist.py` (C07), on top of `Model/Ghist.lean`:

* `Bump`, `Bump.trivial`            — `ComponentBump`, `is_trivial`
* `mkBumps`                         — `RGraph._mk_bumps_info` (+ `_get_relevant_cmpnts_versions`): the pinned version
                                      is looked up in the component's `bn_map`; "unknown version" falls back to the
                                      newest build the parent builds already contain
* `pendingBumps`                    — pending bumps of the "not merged" pseudo build (the component's own pseudo
                                      build counts as its latest build)
* `mkPlug`                          — everything `Model/Ghist.lean` needs to know about the components
* `rbClosure` / `inBump` / `registrations` — `ComponentBump.get_rbuilds_in_bump` (incl. the `known_iids` closure of
                                      commit 88b742a) and the `included_at` loop at the end of
                                      `RGraph.__init__`
* `sortRepos`                       — the ordering DFS of `ReposCollection.__init__` (level lists walked from the end,
                                      stack of path names, `ValueError` on a cycle)
* `analyse`                         — `ReposCollection.make_reports_data`

Repository ids are natural numbers (the harness numbers the repository names in `sorted()` order, the only thing the
code does with the names is sorting and comparing them).  Dictionaries keyed by component name whose iteration order
comes from a Python `set` (`relevant_cmpnts`) are kept sorted by id.  The relevant components narrow down the DFS with
the commit times (`stillRelevant`); inside the cut-off window (`CompWindow`, the quantifier of C07) every component
with a non-empty `bn_map` stays relevant for every commit.
-/
namespace Ghist
open Ak

abbrev Ver := Nat × Nat × Nat
/-- component versions saved in a commit: component id ↦ (major, minor, patch) -/
abbrev Pins := List (Nat × Ver)

/-- `ComponentBump` (builds of the component are referred to by their iid in the component's graph) -/
structure Bump where
  fromBns : List BN
  toBn : BN
  fromRbs : List Nat
  toRb : Option Nat
  deriving Repr, DecidableEq

abbrev Bumps := List (Nat × Bump)

/-- `ComponentBump.is_trivial` -/
def Bump.trivial (b : Bump) : Bool :=
  match b.toRb with
  | none => b.fromRbs.isEmpty
  | some x => b.fromRbs.contains x

/-! ## what a parent repository reads from the graph of a component -/

/-- the repository-wide `bn_map` : build number ↦ (position of the branch in processing order, build) -/
def Graph.bnMapAll {β} (g : Graph β) : List (BN × Nat × Nat) :=
  let rec go (j : Nat) : List (RBranch β) → List (BN × Nat × Nat) → List (BN × Nat × Nat)
    | [], m => m
    | rb :: rbs, m => go (j + 1) rbs (rb.bnMap.foldl (fun m e => dset e.1 (j, e.2) m) m)
  go 0 g.all []

def Graph.findBuild {β} (g : Graph β) (i : Nat) : Option (RB β) :=
  (g.all.flatMap (·.rbuilds)).find? (fun b => b.iid == i)

/-- `RBranch.get_latest_rbuild` of the branch at position `j` -/
def Graph.latestOf {β} (g : Graph β) (j : Nat) : Option (RB β) :=
  match g.all[j]? with
  | none => none
  | some rb =>
    match maxOf (rb.rbuilds.map (·.iid)) with
    | none => none
    | some i => rb.rbuilds.find? (fun b => b.iid == i)

def maxOfD (l : List Nat) : Except Err Nat :=
  match maxOf l with
  | some m => .ok m
  | none => .error .valueError

/-- one component in `_mk_bumps_info` -/
def mkBump (g : Graph Bumps) (comp : Nat) (v : Ver) (parents : List Bumps) : Except Err Bump :=
  let key : BN := ⟨v.1, v.2.1, v.2.2, v.2.2⟩
  let cur := (g.bnMapAll.lookup key).map (·.2)
  let fromBns := parents.filterMap (fun pb => (pb.lookup comp).map (·.toBn))
  let fromRbs := parents.foldl (fun acc pb =>
    match pb.lookup comp with
    | none => acc
    | some b => match b.toRb with
      | some x => addNew acc [x]
      | none => addNew acc b.fromRbs) []
  match cur with
  | some x => .ok ⟨fromBns, key, fromRbs, some x⟩
  | none =>
    if fromRbs.isEmpty then .ok ⟨fromBns, key, fromRbs, none⟩
    else match maxOfD fromRbs with
      | .error e => .error e
      | .ok m => .ok ⟨fromBns, key, fromRbs, some m⟩

/-- `_mk_bumps_info` over the relevant components `cvm` (ascending ids) -/
def mkBumps : List (Nat × Graph Bumps) → Pins → List Bumps → Except Err Bumps
  | [], _, _ => .ok []
  | (comp, g) :: cs, pins, parents =>
    match mkBumps cs pins parents with
    | .error e => .error e
    | .ok rest =>
      match pins.lookup comp with
      | none => .ok rest
      | some v =>
        match mkBump g comp v parents with
        | .error e => .error e
        | .ok b => .ok ((comp, b) :: rest)

/-- pending bumps of the pseudo build, from the bumps of the latest build of the branch -/
def pendingBumps (cvm : List (Nat × Graph Bumps)) : Bumps → Except Err Bumps
  | [] => .ok []
  | (comp, pbump) :: rest =>
    match pendingBumps cvm rest with
    | .error e => .error e
    | .ok r =>
      match pbump.toRb with
      | none => .ok r
      | some incl =>
        match cvm.lookup comp with
        | none => .error .keyError
        | some g =>
          match g.findBuild incl with
          | none => .error .keyError
          | some cb =>
            match g.bnMapAll.lookup cb.bn with
            | none => .error .keyError
            | some (j, _) =>
              match g.latestOf j with
              | none => .error .attributeError
              | some lat =>
                let b : Bump := ⟨[pbump.toBn], lat.bn, [incl], some lat.iid⟩
                .ok (if b.trivial then r else (comp, b) :: r)

/-- the components with a non-empty `bn_map` (`components_versions_maps`) -/
def relevantComps (comps : List (Nat × Graph Bumps)) : List (Nat × Graph Bumps) :=
  comps.filter (fun cg => !cg.2.bnMapAll.isEmpty)

/-- `_get_relevant_cmpnts_names` : the candidates whose cut-off time (`min_rbuild_timestamp` of the component minus
`_CHECK_COMPONENTS_CUTOFF_PERIOD`) lies before the commit time.  (A component with a non-empty `bn_map` has a
`min_rbuild_timestamp`; `analyseAll` raises the code's `TypeError` otherwise, so the `none` cases are not reached.) -/
def stillRelevant (cvm : List (Nat × Graph Bumps)) (time : Nat) (cands : List Nat) : List Nat :=
  cands.filter fun comp =>
    match cvm.lookup comp with
    | none => false
    | some g =>
      match g.minTs with
      | none => false
      | some m => decide (m < time + Gen.Ghist.componentsCutoff)

def mkPlug (comps : List (Nat × Graph Bumps)) : Plug Pins Bumps :=
  let cvm := sortBy (fun a b => a.1 < b.1) (relevantComps comps)
  { relInit := cvm.map (·.1)
    relStep := stillRelevant cvm
    mkBumps := fun rel => mkBumps (cvm.filter fun cg => rel.contains cg.1)
    nonTrivial := fun bs => bs.any (fun cb => !cb.2.trivial)
    pending := pendingBumps cvm
    noBumps := []
    isEmpty := fun bs => bs.isEmpty }

/-- the commit times of the parent history `h` are inside the component cut-off window: every component with reported
builds has a `min_rbuild_timestamp`, and every commit of `h` is younger than that time minus
`_CHECK_COMPONENTS_CUTOFF_PERIOD` (so the component stays relevant along every path of the DFS) -/
def CompWindow (comps : List (Nat × Graph Bumps)) (h : Hist Pins) : Prop :=
  ∀ cg ∈ relevantComps comps, ∃ m, cg.2.minTs = some m ∧
    ∀ (c : Nat) (cm : Commit Pins), h.commits[c]? = some cm → m < cm.time + Gen.Ghist.componentsCutoff

/-! ## `included_at` -/

/-- `known_iids` of `ComponentBump.get_rbuilds_in_bump` : the builds of the previous versions with all the builds
they contain (closure of `from_rbuilds` under parent builds) -/
def rbClosure {β} (g : Graph β) : Nat → List Nat → Nat → Except Err (List Nat)
  | 0, _, _ => .error .outOfFuel
  | fuel + 1, seen, x =>
    if seen.contains x then .ok seen
    else match g.findBuild x with
      | none => .error .keyError
      | some b => b.parents.foldlM (rbClosure g fuel) (x :: seen)

/-- the DFS of `ComponentBump.get_rbuilds_in_bump` as a set: the component builds reachable from `to_rbuild`
through parent builds without entering `stop` (= `known_iids`) -/
def inBump {β} (g : Graph β) (stop : List Nat) : Nat → List Nat → Nat → Except Err (List Nat)
  | 0, _, _ => .error .outOfFuel
  | fuel + 1, seen, x =>
    if stop.contains x || seen.contains x then .ok seen
    else match g.findBuild x with
      | none => .error .keyError
      | some b => b.parents.foldlM (inBump g stop fuel) (x :: seen)

def rbuildsInBump (g : Graph Bumps) (b : Bump) : Except Err (List Nat) :=
  match b.toRb with
  | none => .ok []
  | some x =>
    match b.fromRbs.foldlM (fun seen f => rbClosure g (f + 1) seen f) [] with
    | .error e => .error e
    | .ok known => inBump g known (x + 1) [] x

/-- one `included_at` entry: (parent repository, parent branch name, parent build number) registered in a build of
a component -/
structure Reg where
  comp : Nat
  iid : Nat
  repo : Nat
  branch : List Char
  bn : BN
  deriving Repr, DecidableEq

def regsOfBuild (repo : Nat) (branch : List Char) (comp : Nat) (g : Graph Bumps) (b : RB Bumps) :
    Except Err (List Reg) :=
  if b.bn = fakeNM then .ok []
  else match b.bumps.lookup comp with
    | none => .ok []
    | some bump =>
      match rbuildsInBump g bump with
      | .error e => .error e
      | .ok xs => .ok (xs.map fun x => ⟨comp, x, repo, branch, b.bn⟩)

def concatM {α} : List (Except Err (List α)) → Except Err (List α)
  | [] => .ok []
  | x :: xs =>
    match x, concatM xs with
    | .ok a, .ok b => .ok (a ++ b)
    | .error e, _ => .error e
    | _, .error e => .error e

/-- the registration loop at the end of `RGraph.__init__` -/
def registrations (repo : Nat) (comps : List (Nat × Graph Bumps)) (g : Graph Bumps) : Except Err (List Reg) :=
  concatM (g.branches.flatMap fun rb =>
    comps.flatMap fun cg =>
      (sortBy (fun a b : RB Bumps => a.iid < b.iid) rb.rbuilds).map fun b => regsOfBuild repo rb.name cg.1 cg.2 b)

/-! ## `ReposCollection` -/

structure RepoIn where
  id : Nat
  deps : List Nat                 -- keys of `_COMPONENTS_VERSIONS_LOCATIONS`
  hist : Hist Pins

def ascending (l : List Nat) : List Nat := sortBy (fun a b => a < b) l

/-- `not_processed_sub_components` -/
def subsOf (ids : List Nat) (deps : Nat → List Nat) (done : List Nat) (cur : Nat) : List Nat :=
  ascending ((deps cur).filter fun d => ids.contains d && !done.contains d)

/-- one look of the ordering DFS at `cur` (the repository named by the top of the path stack);
`path` = the names below it on the stack -/
def visitRepo (ids : List Nat) (deps : Nat → List Nat) :
    Nat → List Nat × List Nat → List Nat → Nat → Except Err (List Nat × List Nat)
  | 0, _, _, _ => .error .outOfFuel
  | fuel + 1, (done, sorted), path, cur =>
    if done.contains cur then .ok (done, sorted)
    else
      let subs := subsOf ids deps done cur
      if subs.isEmpty then .ok (cur :: done, sorted ++ [cur])
      else if subs.any (fun d => (cur :: path).contains d) then .error .valueError
      else
        match subs.reverse.foldlM (fun st d => visitRepo ids deps fuel st (cur :: path) d) (done, sorted) with
        | .error e => .error e
        | .ok st => visitRepo ids deps fuel st path cur

/-- `sorted_repos` -/
def sortRepos (ids : List Nat) (deps : Nat → List Nat) : Except Err (List Nat) :=
  let l := ascending ids
  match l.reverse.foldlM (fun st d => visitRepo ids deps (2 * ids.length + 2) st [] d) ([], []) with
  | .error e => .error e
  | .ok (_, sorted) => .ok sorted

def depsOf (repos : List RepoIn) (i : Nat) : List Nat :=
  match repos.find? (fun r => r.id == i) with
  | some r => r.deps
  | none => []

structure Analysed where
  id : Nat
  graph : Graph Bumps

/-- `make_reports_data` : repositories in `sorted_repos` order, each with the graphs of its components -/
def analyseAll (repos : List RepoIn) : List Nat → List Analysed → List Reg → Except Err (List Analysed × List Reg)
  | [], acc, regs => .ok (acc, regs)
  | i :: is, acc, regs =>
    match repos.find? (fun r => r.id == i) with
    | none => .error .keyError
    | some r =>
      let comps := (acc.filter fun a => r.deps.contains a.id).map fun a => (a.id, a.graph)
      if (relevantComps comps).any (fun cg => cg.2.minTs.isNone) then .error .typeError   -- `None - int`
      else
      match rgraph r.hist (mkPlug comps) with
      | .error e => .error e
      | .ok g =>
        match registrations i comps g with
        | .error e => .error e
        | .ok rs => analyseAll repos is (acc ++ [⟨i, g⟩]) (regs ++ rs)

def analyse (repos : List RepoIn) : Except Err (List Analysed × List Reg) :=
  match sortRepos (repos.map (·.id)) (depsOf repos) with
  | .error e => .error e
  | .ok order => analyseAll repos order [] []

/-- what `ReposCollection.__init__` keeps of the entries it is given: an entry that is a path whose id has no class in
`_REPOS_TYPES` is skipped with a warning (`known = false`); it is then no member of the collection, also when another
repository names it as a component -/
def keptRepos {α} (supplied : List (α × Bool)) : List α := (supplied.filter (·.2)).map (·.1)

/-- `included_at` of the build `iid` of repository `comp` -/
def includedAt (regs : List Reg) (comp iid : Nat) : List Reg :=
  regs.filter fun r => r.comp == comp && r.iid == iid

end Ghist
