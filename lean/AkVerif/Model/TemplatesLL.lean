import AkVerif.Model.Templates
import AkVerif.Model.LLGrammar
/-!
C05 on top of the LL parser model (`Model/LLGrammar.lean`, `Model/LLParse.lean`, imported, not copied):
the whole path `LLParser(productions with templates).parse(text)` inside the model.

* `GramEntry`, `expandGrammar` — `LLParser._create_productions._gen_prods_data`: the user's dictionary in order;
                           a template is completed (`complete_init`) and replaced by the productions it generates,
                           `'__'` is rejected in user keys and in the symbols of plain productions (repair a1a7d93)
                           but of course not in the generated symbols; `seq_symbols`, `prod_templates`.
* `constructT`           — the constructor `LL.construct` with `_create_productions` replaced by the above
                           (`LL.construct` itself rejects every `__`, it models grammars without templates); all other
                           steps are the LL model's functions: `tokenNames`, `skipSet`, `factorize`, `verifyPart1`,
                           `nullables`, `firstSets`, `followSets`, `mkTable`, `recCheck`; then `ListProds.verify_grammar`
                           (nullable item without delimiter) and `StdCleanuper.make` on the *model's* factorised
                           dictionary.
* `toVal`                — a tree of the parse loop as `TElement`s; nodes of sequence symbols are flattened when they
                           are completed (`_process_seq_telement`), i.e. children first.
* `TParser.parseRaw`, `TParser.parseClean` — `parse(text, do_cleanup=False)` and `parse(text)`.
-/
namespace Templates
open Ak LL

inductive GramEntry where
  | plain (prods : List ProdArg)
  | list (a : ListArgs)
  | map (a : MapArgs)
  | seq (args : List SymArg)

structure Expanded where
  prods : List (Name × List (List Name)) := []
  templates : List (Name × Template) := []
  seqSyms : List Name := []
  /-- keys of `productions` given as a template / symbols the templates generated (`Tmpl` of the LL model) -/
  tmplKeys : List Name := []
  genSyms : List Name := []

def prodArgHasDunder : ProdArg → Bool
  | .tuple p => p.any hasDunder
  | _ => false

/-- `_gen_prods_data` + the bookkeeping of `_create_productions` (`terminals`: iteration order of the set, data) -/
def expandGrammar (terminals : List Name) : List (Name × GramEntry) → Expanded → Except Err Expanded
  | [], acc => .ok acc
  | (sym, e) :: rest, acc =>
    if hasDunder sym then .error .assertion else
    match e with
    | .plain ps =>
      if ps.any prodArgHasDunder then .error .assertion else
      match prodRules terminals ps false with
      | .error err => .error err
      | .ok rules => expandGrammar terminals rest { acc with prods := acc.prods ++ [(sym, rules)] }
    | .list a =>
      match mkListOpts a sym with
      | .error err => .error err
      | .ok o => expandGrammar terminals rest
          { acc with prods := acc.prods ++ o.genProds, templates := acc.templates ++ [(sym, .list o)],
                     tmplKeys := acc.tmplKeys ++ [sym], genSyms := acc.genSyms ++ [o.tailSym] }
    | .map a =>
      match mkMapOpts a sym with
      | .error err => .error err
      | .ok o => expandGrammar terminals rest
          { acc with prods := acc.prods ++ o.genProds, templates := acc.templates ++ [(sym, .map o)],
                     tmplKeys := acc.tmplKeys ++ [sym], genSyms := acc.genSyms ++ [o.kvTailSym, o.kvPairSym] }
    | .seq args =>
      match seqSymbols terminals args with
      | .error err => .error err
      | .ok syms => expandGrammar terminals rest
          { acc with prods := acc.prods ++ seqGenProds sym syms, seqSyms := acc.seqSyms ++ [sym],
                     tmplKeys := acc.tmplKeys ++ [sym], genSyms := acc.genSyms ++ [sym ++ seqElemSuffix] }

/-- `prods_map[symbol] = _make_prod_rules_list(...)` with one `sort_n` counter; a repeated key is an assertion -/
def numberProds : Nat → List (Name × List (List Name)) → LL.Prods Sym → Except Err (LL.Prods Sym)
  | _, [], acc => .ok acc
  | n, (s, alts) :: rest, acc =>
    if (dget (parseSym s) acc).isSome then .error .assertion
    else
      let rules := (numberFrom n alts).map fun (i, p) => (⟨p.map parseSym, i⟩ : Rule Sym)
      numberProds (n + alts.length) rest (acc ++ [(parseSym s, rules)])

structure TParser where
  ll : Parser
  cl : Cleanuper
  seqSyms : List Name

/-- `ListProds.verify_grammar` for every template -/
def verifyTemplates (nulls : List Sym) : List (Name × Template) → Except Err Unit
  | [] => .ok ()
  | (_, .list o) :: rest =>
    if o.delim.isNone && decide (parseSym o.item ∈ nulls) then .error .grammarError else verifyTemplates nulls rest
  | (_, .map _) :: rest => verifyTemplates nulls rest

def symProds (G : LL.Prods Sym) : Templates.Prods :=
  G.map fun (s, rules) => (s.name, rules.map fun r => r.rhs.map Sym.name)

/-- `LLParser.__init__` for a grammar with templates -/
def constructT (groups : List Name) (syn : List (Name × Name)) (skip : Option (List Name)) (start : Name)
    (smart : Bool) (keep : List Name) (termOrder : List Name) (entries : List (Name × GramEntry)) :
    Except Err TParser := do
  let inp : CtorIn := ⟨groups, syn, [], skip, start, [], smart⟩
  let terms0 := tokenNames inp
  if terms0.any (fun t => hasDunder t.name) then .error .assertion else
  let skipS ← skipSet inp terms0
  let ex ← expandGrammar termOrder entries {}
  let U ← numberProds 0 ex.prods []
  let (G, suffix) ← factorize terms0 U smart
  let terms := sadd terms0 endSym
  let startS := parseSym start
  verifyPart1 terms startS G
  let nulls ← nullables G
  verifyTemplates nulls ex.templates
  let first ← firstSets terms nulls G
  let follow ← followSets terms nulls first G startS endSym
  let table ← mkTable terms nulls first follow G
  recCheck G terms nulls (sortedKeys G)
  let P : Parser := ⟨terms, skipS, startS, syn, [], U, G, suffix, nulls, first, follow, table⟩
  .ok { ll := P, cl := mkCleanuper ex.templates (symProds G) (suffix.map Sym.name) keep start,
        seqSyms := ex.seqSyms }

mutual
/-- the tree of the parse loop as `TElement`s; sequence nodes are flattened innermost first -/
def toVal (seqSyms : List Name) : Tree Sym → Except Err Val
  | .leaf n v => .ok (.elem n.name true (.str v))
  | .node n [] =>
    if n.name ∈ seqSyms then processSeq (.elem n.name true .none) else .ok (.elem n.name true .none)
  | .node n (c :: cs) =>
    match toVals seqSyms (c :: cs) with
    | .error e => .error e
    | .ok xs =>
      if n.name ∈ seqSyms then processSeq (.elem n.name false (.list xs)) else .ok (.elem n.name false (.list xs))
def toVals (seqSyms : List Name) : List (Tree Sym) → Except Err (List Val)
  | [] => .ok []
  | t :: ts =>
    match toVal seqSyms t with
    | .error e => .error e
    | .ok x =>
      match toVals seqSyms ts with
      | .error e => .error e
      | .ok xs => .ok (x :: xs)
end

/-! ### how `_Tokenizer.tokenize` cuts a `str` into lines -/

/-- `str.split(sep)` for a one-character separator -/
def splitOn (sep : Char) : List Char → List (List Char)
  | [] => [[]]
  | c :: cs =>
    if c = sep then [] :: splitOn sep cs
    else match splitOn sep cs with
      | [] => [[c]]
      | l :: ls => (c :: l) :: ls

/-- code points for which `str.isspace()` holds (what `str.rstrip()` removes) -/
def pySpaces : List Nat :=
  [9, 10, 11, 12, 13, 28, 29, 30, 31, 32, 133, 160, 5760, 8192, 8193, 8194, 8195, 8196, 8197, 8198, 8199, 8200, 8201,
   8202, 8232, 8233, 8239, 8287, 12288]

def rstrip (s : List Char) : List Char :=
  (s.reverse.dropWhile fun c => decide (c.toNat ∈ pySpaces)).reverse

/-- `(t.rstrip() for t in text.split('\n'))`: the separator is read from the source (`Gen.C05.lineSep`) -/
def strLines (text : List Char) : List (List Char) :=
  (splitOn Gen.C05.lineSep text).map rstrip

/-- `parse(text, do_cleanup=False)` on the lexemes found by the tokenizer's regular expression -/
def TParser.parseRaw (T : TParser) (raw : List (Name × List Char)) (fuel : Nat) : Except Err Val :=
  match T.ll.parse raw fuel with
  | .error e => .error e
  | .ok t => toVal T.seqSyms t

/-- `parse(text)` -/
def TParser.parseClean (T : TParser) (raw : List (Name × List Char)) (fuel : Nat) : Except Err Val :=
  match T.parseRaw raw fuel with
  | .error e => .error e
  | .ok v => cleanupRoot T.cl v

end Templates
