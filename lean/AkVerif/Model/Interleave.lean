import AkVerif.Model.Common
/-!
Model of the request-id machinery of `/repo/ak/conn_http.py` (C16).

* `Instr` / `stepTh` / `runSched` — threads executing the *instruction list extracted from the
  bytecode of `_HttpConnImpl._generate_request_id`* (`Gen.C16.reqIdProgram`, one `Instr` per
  bytecode instruction that raises an `opcode` trace event), one instruction per scheduler choice.
  A schedule is a list of thread ids; a step of a thread that is blocked on the lock, that has no
  request left or whose pc left the program is a no-op.  Any number of threads (`th : Nat → Th`).
* `St.log` is a ghost (history) variable: every counter write appends (writer, value of the counter
  just before the write).  Nothing reads it; the theorems' conclusions do not mention it.
* `runTh` / `runRle` / `runPar` — what the driver executes for a `par` line: run-length encoded
  schedule followed by the drain `(0*N, 1*N, …, (k-1)*N) × (k+1)`; `runTh_eq_runSched` (Lemmas) shows
  it is `runSched` on the expanded schedule.
* `render` — the id format (`"{}{}-0000-0000-0000-{}".format(conn, "{:04}".format(n%10000),
  "{:012}".format(n))`), as a list of pieces generated from the source.
* `World` / `request` — `do_request` as far as headers go, on connections sharing implementation
  objects (`conn_impl`) and a heap of caller-owned header dicts: `RequestArguments` copies the caller's
  dict (`Gen.C16.hdrInit`), the authenticating adapters add `Authorization`, then the id branch
  (`idBranch`): counter `None` → nothing is added; a header whose name satisfies the generated test
  (`Gen.C16.hdrTest`) → untouched; otherwise one run of the program on the shared counter; finally the
  json content type.  `wrap` builds a derived connection through the constructor of a class
  (`Gen.C16.wrapKinds`: which constructors hand the parent's `conn_impl` on).
  What `urllib.request.Request` sends under `X-request-id` is the value of the *last* header whose
  `capitalize()`d name is that one (`sentId`).

Trusted (not modelled): the GIL switches threads only between bytecodes; `threading.Lock`.
`rel` frees the lock whoever holds it (as `threading.Lock.release` does); releasing a free lock
(`RuntimeError` in Python) cannot happen in a program where every `rel` closes a `with` opened by an
`acq` of the same straight-line code, which is all the translator emits.
Registers are written before they are read in every emitted program (symbolic evaluation of
straight-line code), so the initial value `0` of a register is never observed.
-/
namespace Interleave
open Ak

/-- abstract instructions of `_generate_request_id` -/
inductive Instr where
  | acq                         -- lock.__enter__ / lock.acquire()
  | rel                         -- lock.__exit__ / lock.release()
  | rd (dst : Nat)              -- register[dst] := self._cur_req_id
  | wr (src : Nat) (k : Nat)    -- self._cur_req_id := register[src] + k
  | nop                         -- touches the thread's own stack / locals only
  | ret (src : Nat)             -- return format(register[src])
  deriving DecidableEq, Repr

/-- per-thread state -/
structure Th where
  pc : Nat
  locals : Nat → Nat
  handed : List Nat             -- numbers returned by completed calls, newest first
  remaining : Nat               -- calls this thread still has to make (incl. the current one)

structure St where
  ctr : Nat
  lock : Option Nat             -- holder
  log : List (Nat × Nat)        -- ghost: (writer, counter before the write), oldest first
  th : Nat → Th

def setTh (s : St) (i : Nat) (t : Th) : St :=
  { s with th := fun j => if j = i then t else s.th j }

/-- one scheduler choice: thread `i` executes one instruction -/
def stepTh (p : List Instr) (s : St) (i : Nat) : St :=
  let t := s.th i
  if t.remaining = 0 then s else
  match p[t.pc]? with
  | none => s
  | some .acq =>
    match s.lock with
    | none => setTh { s with lock := some i } i { t with pc := t.pc + 1 }
    | some _ => s
  | some .rel => setTh { s with lock := none } i { t with pc := t.pc + 1 }
  | some (.rd d) =>
    setTh s i { t with pc := t.pc + 1, locals := fun x => if x = d then s.ctr else t.locals x }
  | some (.wr src k) =>
    setTh { s with ctr := t.locals src + k, log := s.log ++ [(i, s.ctr)] } i { t with pc := t.pc + 1 }
  | some .nop => setTh s i { t with pc := t.pc + 1 }
  | some (.ret r) =>
    setTh s i { pc := 0, locals := fun _ => 0, handed := t.locals r :: t.handed,
                remaining := t.remaining - 1 }

def runSched (p : List Instr) (s : St) (sched : List Nat) : St := sched.foldl (stepTh p) s

def initTh (n : Nat) : Th := { pc := 0, locals := fun _ => 0, handed := [], remaining := n }

/-- all threads before their first call, `rem i` calls to make, counter `c` -/
def initSt (c : Nat) (rem : Nat → Nat) : St :=
  { ctr := c, lock := none, log := [], th := fun i => initTh (rem i) }

/-- a step of thread `i` would leave the state as it is -/
def idle (p : List Instr) (s : St) (i : Nat) : Bool :=
  (s.th i).remaining == 0 ||
  match p[(s.th i).pc]? with
  | none => true
  | some .acq => s.lock.isSome
  | _ => false

/-- `n` consecutive steps of thread `i`, stopping early when nothing can change any more -/
def runTh (p : List Instr) (s : St) (i : Nat) : Nat → St
  | 0 => s
  | n + 1 => if idle p s i then s else runTh p (stepTh p s i) i n

/-- run-length encoded schedule: `(t, n)` = `n` steps of thread `t` -/
def runRle (p : List Instr) (s : St) : List (Nat × Nat) → St
  | [] => s
  | (t, n) :: rest => runRle p (runTh p s t n) rest

def drainRun : Nat := 1000000

/-- after the explicit schedule: every thread in turn runs until it is finished or blocked,
`k + 1` rounds -/
def drainSched (k : Nat) : List (Nat × Nat) :=
  (List.replicate (k + 1) ((List.range k).map fun t => (t, drainRun))).flatten

def expand (rle : List (Nat × Nat)) : List Nat :=
  (rle.map fun tn => List.replicate tn.2 tn.1).flatten

/-- calls thread `i` has to make: `reqs[i]`, none for a thread outside the list -/
def reqOf (reqs : List Nat) (i : Nat) : Nat :=
  match reqs[i]? with
  | some n => n
  | none => 0

/-- `reqs[t]` calls by thread `t`, explicit schedule, drain; numbers per thread (oldest first) and
the final counter; `OUT-OF-FUEL` when a thread did not finish (deadlock) -/
def runPar (p : List Instr) (c : Nat) (reqs : List Nat) (sched : List (Nat × Nat)) :
    Except Err (List (List Nat) × Nat) :=
  let s0 := initSt c (reqOf reqs)
  let s := runRle p s0 (sched ++ drainSched reqs.length)
  if (List.range reqs.length).all (fun t => (s.th t).remaining == 0) then
    .ok ((List.range reqs.length).map (fun t => (s.th t).handed.reverse), s.ctr)
  else .error .outOfFuel

/-- one call by one thread, nobody else around: (number, new counter) -/
def genSeq (p : List Instr) (c : Nat) : Except Err (Nat × Nat) :=
  match runPar p c [1] [] with
  | .ok ([[v]], c') => .ok (v, c')
  | .ok _ => .error .outOfFuel
  | .error e => .error e

/-! ### id format -/

inductive Piece where
  | conn                                   -- `self._reqid_connection_part`
  | lit (s : List Char)
  | num (modulus : Option Nat) (width : Nat)   -- `"{:0<width>}".format(n)` / `(n % modulus)`
  deriving DecidableEq, Repr

def digitChar : Nat → Char
  | 0 => '0' | 1 => '1' | 2 => '2' | 3 => '3' | 4 => '4'
  | 5 => '5' | 6 => '6' | 7 => '7' | 8 => '8' | 9 => '9' | _ => '?'

/-- decimal digits, least significant first, at least one (`str(0) == "0"`) -/
def decLE : Nat → Nat → List Nat
  | 0, _ => []
  | fuel + 1, n => if n < 10 then [n] else (n % 10) :: decLE fuel (n / 10)

/-- `"{:0w}".format(n)`: digits, zero-padded on the left to at least `w` characters -/
def padLE (w n : Nat) : List Nat :=
  let ds := decLE (n + 1) n
  ds ++ List.replicate (w - ds.length) 0

def pad (w n : Nat) : List Char := (padLE w n).reverse.map digitChar

/-- the translator emits only positive moduli (`n % 0` raises in Python) -/
def renderPiece (cp : List Char) (n : Nat) : Piece → List Char
  | .conn => cp
  | .lit s => s
  | .num none w => pad w n
  | .num (some m) w => pad w (n % m)

def render (cp : List Char) (f : List Piece) (n : Nat) : List Char :=
  (f.map (renderPiece cp n)).flatten

/-! ### `do_request`'s id branch -/

/-- the test "the caller already supplied an id" applied to one header name -/
inductive HdrTest where
  | exact (s : List Char)        -- `'…' in headers`
  | lowerEq (s : List Char)      -- `any(h.lower() == '…' for h in headers)`
  deriving DecidableEq, Repr

def lowerAscii (c : Char) : Char :=
  if 65 ≤ c.toNat ∧ c.toNat ≤ 90 then Char.ofNat (c.toNat + 32) else c

def upperAscii (c : Char) : Char :=
  if 97 ≤ c.toNat ∧ c.toNat ≤ 122 then Char.ofNat (c.toNat - 32) else c

def HdrTest.holds : HdrTest → List Char → Bool
  | .exact s, name => name == s
  | .lowerEq s, name => name.map lowerAscii == s

/-- `str.capitalize()` on ASCII (what `urllib.request.Request.add_header` does to a name) -/
def capitalize : List Char → List Char
  | [] => []
  | c :: cs => upperAscii c :: cs.map lowerAscii

abbrev Headers := List (List Char × List Char)

/-- dict assignment `headers[name] = v`: replaces in place, new keys go last -/
def setHeader : Headers → List Char → List Char → Headers
  | [], name, v => [(name, v)]
  | (k, x) :: rest, name, v => if k = name then (k, v) :: rest else (k, x) :: setHeader rest name v

/-- value sent under the capitalised `name`: the last header whose capitalised name is that one -/
def sentId (name : List Char) (hs : Headers) : Option (List Char) :=
  match (hs.filter fun kv => capitalize kv.1 == capitalize name).getLast? with
  | some kv => some kv.2
  | none => none

structure Impl where
  ctr : Option Nat              -- `_cur_req_id` (`None` disables ids)
  cp : List Char                -- `_reqid_connection_part`

/-- request adapters whose `process_req_args` touches the headers: the authenticating adapters of the
package, and two adapters of the caller's that propagate an id (set it always / set it unless the
request already has one in any capitalisation) -/
inductive Adapter where
  | auth (v : List Char)
  | setId (v : List Char)
  | politeId (v : List Char)
  deriving DecidableEq, Repr

/-- a public connection object -/
structure Conn where
  impl : Nat                    -- index of its `conn_impl`
  adapters : List Adapter       -- adapters of its chain that touch headers, own adapters first

/-- `RequestArguments.__init__`: `headers.copy() if headers else {}` or (a change of the source)
`headers or {}`, which keeps the caller's object -/
inductive HdrInit where
  | copy
  | alias
  deriving DecidableEq, Repr

/-- where the caller's headers come from: a dict built for this call, or a dict object the caller
keeps and may pass again -/
inductive HdrSrc where
  | lit (hs : Headers)
  | ref (k : Nat)

structure World where
  impls : List Impl
  conns : List Conn
  dicts : List Headers          -- heap of the caller's long-lived header dicts

structure Cfg where
  prog : List Instr
  fmt : List Piece
  test : HdrTest
  name : List Char
  init : HdrInit
  kinds : List (List Char × Bool)   -- connection classes; does the constructor hand the parent's `conn_impl` on?

def World.empty : World := { impls := [], conns := [], dicts := [] }

def World.newImpl (w : World) (cp : List Char) (ids : Bool) : World × Nat :=
  ({ w with impls := w.impls ++ [{ ctr := if ids then some 0 else none, cp := cp }],
            conns := w.conns ++ [{ impl := w.impls.length, adapters := [] }] }, w.conns.length)

def World.newDict (w : World) (hs : Headers) : World × Nat :=
  ({ w with dicts := w.dicts ++ [hs] }, w.dicts.length)

/-- a derived connection of class `cls`: it shares the implementation object of its parent when the
constructor of the class passes `conn_data` on unchanged (`g.kinds`, read from the source);
a constructor that does not builds an implementation object of its own (fresh counter) -/
def World.wrap (g : Cfg) (w : World) (c : Nat) (cls : List Char) (ad : Option Adapter) :
    Except Err (World × Nat) :=
  match w.conns[c]?, g.kinds.lookup cls with
  | some cn, some true =>
    .ok ({ w with conns := w.conns ++ [{ impl := cn.impl, adapters := ad.toList ++ cn.adapters }] },
         w.conns.length)
  | some cn, some false =>
    match w.impls[cn.impl]? with
    | some im =>
      .ok ({ w with impls := w.impls ++ [{ ctr := im.ctr.map fun _ => 0, cp := im.cp }],
                    conns := w.conns ++ [{ impl := w.impls.length, adapters := ad.toList ++ cn.adapters }] },
           w.conns.length)
    | none => .error .indexError
  | _, _ => .error .indexError

/-- `conn.add_adapter(adapter)`: `self.adapters.append(adapter)` — the adapter goes to the END of the list of
this connection object only.  Connections derived earlier built their own list (`own_adapters +
parent.adapters` is a new list) and do not see it; connections derived later copy it (`World.wrap`).
`none` = an adapter that does not touch headers (path prefix, response adapter) -/
def World.addAdapter (w : World) (c : Nat) (ad : Option Adapter) : Except Err World :=
  match w.conns[c]? with
  | none => .error .indexError
  | some cn => .ok { w with conns := w.conns.set c { cn with adapters := cn.adapters ++ ad.toList } }

def setImpl (l : List Impl) (i : Nat) (x : Impl) : List Impl := l.set i x

def authName : List Char := "Authorization".toList
def ctName : List Char := "Content-Type".toList
def ctJson : List Char := "application/json".toList

/-- the authenticating adapters (`assert 'Authorization' not in headers`, then set it) -/
def applyAuths : List (List Char) → Headers → Option Headers
  | [], hs => some hs
  | a :: rest, hs =>
    if hs.any (fun kv => kv.1 == authName) then none else applyAuths rest (setHeader hs authName a)

def idAdapterName : List Char := "X-Request-ID".toList
def idAdapterLower : List Char := "x-request-id".toList

/-- `for adapter in adapters: adapter.process_req_args(req_args)` as far as headers go -/
def applyAdapters : List Adapter → Headers → Option Headers
  | [], hs => some hs
  | .auth a :: rest, hs =>
    if hs.any (fun kv => kv.1 == authName) then none else applyAdapters rest (setHeader hs authName a)
  | .setId v :: rest, hs => applyAdapters rest (setHeader hs idAdapterName v)
  | .politeId v :: rest, hs =>
    if hs.any (fun kv => kv.1.map lowerAscii == idAdapterLower) then applyAdapters rest hs
    else applyAdapters rest (setHeader hs idAdapterName v)

/-- step "4. data": a json body brings its content type unless the caller named one (exact spelling) -/
def addContentType (hasData : Bool) (hs : Headers) : Headers :=
  if hasData && !(hs.any fun kv => kv.1 == ctName) then setHeader hs ctName ctJson else hs

/-- step "2. headers" of `do_request` on the dict `hs` of the request arguments: new world and dict -/
def World.idBranch (g : Cfg) (w : World) (i : Nat) (im : Impl) (hs : Headers) :
    Except Err (World × Headers) :=
  match im.ctr with
  | none => .ok (w, hs)
  | some n =>
    if hs.any (fun kv => g.test.holds kv.1) then .ok (w, hs)
    else match genSeq g.prog n with
      | .error e => .error e
      | .ok (v, n') =>
        .ok ({ w with impls := setImpl w.impls i { im with ctr := some n' } },
             setHeader hs g.name (render im.cp g.fmt v))

def HdrSrc.read (w : World) : HdrSrc → Option Headers
  | .lit hs => some hs
  | .ref k => w.dicts[k]?

/-- with `copy` the request works on its own dict; with `alias` a non-empty caller dict is the dict
the request writes to -/
def writeBack (g : Cfg) (w : World) (src : HdrSrc) (hs0 hs : Headers) : World :=
  match g.init, src with
  | .alias, .ref k => if hs0.isEmpty then w else { w with dicts := w.dicts.set k hs }
  | _, _ => w

/-- `do_request` as far as headers go: request arguments, adapters, id, content type;
new world and the dict handed to `urllib.request.Request` -/
def World.request (g : Cfg) (w : World) (c : Nat) (src : HdrSrc) (hasData : Bool) :
    Except Err (World × Headers) :=
  match w.conns[c]? with
  | none => .error .indexError
  | some cn =>
    match w.impls[cn.impl]? with
    | none => .error .indexError
    | some im =>
      match src.read w with
      | none => .error .indexError
      | some hs0 =>
        match applyAdapters cn.adapters hs0 with
        | none => .error .assertion
        | some hs1 =>
          match w.idBranch g cn.impl im hs1 with
          | .error e => .error e
          | .ok (w1, hs2) =>
            let hs3 := addContentType hasData hs2
            .ok (writeBack g w1 src hs0 hs3, hs3)

/-- what happens after the request was handed to the opener -/
inductive Outcome where
  | answered                 -- an answer came and was processed (or `raw_response=True`)
  | openerRaised             -- network error, HTTP error status, timeout, …
  | processingRaised         -- 200, but the body is no JSON / no UTF-8, or a response adapter rejects it
  deriving DecidableEq, Repr

/-- a request together with its outcome: the request was sent in each case, nothing it did is undone —
in particular the number it took stays taken (a modelling decision: there is no step here that could give it
back; tied to the source by the translator's `otherWriters` = [] and by the tie); the flag says whether the
caller sees an exception -/
def World.requestOutcome (g : Cfg) (w : World) (c : Nat) (src : HdrSrc) (hasData : Bool) (o : Outcome) :
    Except Err (World × Headers × Bool) :=
  match w.request g c src hasData with
  | .ok (w', hs) => .ok (w', hs, o != .answered)
  | .error e => .error e

/-- requests of one thread in a `par` line: connection and caller headers -/
abbrev ParReq := Nat × Headers

/-- does this request take a number? (`none`: bad connection) -/
def needsId (g : Cfg) (w : World) (i : Nat) (r : ParReq) : Option Bool :=
  match w.conns[r.1]? with
  | some cn => if cn.impl = i then some (!(r.2.any fun kv => g.test.holds kv.1)) else none
  | none => none

/-- final headers of the requests of one thread, given the numbers the thread was handed -/
def assemble (g : Cfg) (cp : List Char) : List ParReq → List Nat → Option (List Headers)
  | [], [] => some []
  | [], _ :: _ => none
  | (_, hs) :: rest, nums =>
    if hs.any (fun kv => g.test.holds kv.1) then (assemble g cp rest nums).map (hs :: ·)
    else match nums with
      | [] => none
      | v :: nums' => (assemble g cp rest nums').map (setHeader hs g.name (render cp g.fmt v) :: ·)

/-- `assemble` for every thread (`none` when the lists do not match) -/
def assembleAll (g : Cfg) (cp : List Char) : List (List ParReq) → List (List Nat) → Option (List (List Headers))
  | [], [] => some []
  | t :: ts, n :: ns =>
    match assemble g cp t n, assembleAll g cp ts ns with
    | some o, some os => some (o :: os)
    | _, _ => none
  | _, _ => none

/-- concurrent requests of several threads through connections that all share implementation `i`,
under a schedule of the instructions of `_generate_request_id`; `threads` holds the header dicts as the
adapters left them (plain GET requests: no body; caller dicts are read, never written) -/
def World.parCore (g : Cfg) (w : World) (i : Nat) (threads : List (List ParReq))
    (sched : List (Nat × Nat)) : Except Err (World × List (List Headers)) :=
  match w.impls[i]? with
  | none => .error .indexError
  | some im =>
    match threads.mapM (fun t => t.mapM (needsId g w i)) with
    | none => .error .indexError
    | some need =>
      match im.ctr with
      | none => .ok (w, threads.map (·.map (·.2)))
      | some n =>
        match runPar g.prog n (need.map fun t => (t.filter id).length) sched with
        | .error e => .error e
        | .ok (nums, n') =>
          match assembleAll g im.cp threads nums with
          | none => .error .assertion
          | some out => .ok ({ w with impls := setImpl w.impls i { im with ctr := some n' } }, out)

/-- the adapters of the connection a request goes through, applied to its headers -/
def adaptReq (w : World) (r : ParReq) : Except Err ParReq :=
  match w.conns[r.1]? with
  | none => .error .indexError
  | some cn =>
    match applyAdapters cn.adapters r.2 with
    | none => .error .assertion
    | some hs => .ok (r.1, hs)

def World.par (g : Cfg) (w : World) (i : Nat) (threads : List (List ParReq))
    (sched : List (Nat × Nat)) : Except Err (World × List (List Headers)) :=
  match threads.mapM (fun t => t.mapM (adaptReq w)) with
  | .error e => .error e
  | .ok threads' => w.parCore g i threads' sched

end Interleave
