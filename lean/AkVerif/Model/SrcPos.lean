import AkVerif.Model.Common
/-!
Model of the position arithmetic of `/repo/ak/llparser.py` (C04).

* `Pos`            — `SrcPos.coords` (`(line, col)`, tuple order).
* `Bases`          — the literal offsets of the source (`SrcPos(src_name, 1, 1)`, `enumerate(…, start=1)`,
                     `col + 1`, `match.end() + 1`, the 0-based column of `LexicalError`, the `-= 1` of
                     `get_orig_text`); the actual values are *generated* from the source (`Gen.C04.bases`),
                     the model is generic in them.
* `Re`             — what the library `re` answers: `norm i c` = `self.matcher.match(text_line, c)` on line
                     number `i` (0-based), `body k i c` = `span_body_matcher.match(text_line, c)` for the span
                     matcher of group `k`.  A `Match` carries `match.end()`, the number of `match.lastgroup`
                     and the span of that group.  The model never looks inside a pattern.
* `scanLine`       — the `while col < len(text_line)` loop of `_Tokenizer.tokenize` for one line
                     (fuel = length of the line; a match that does not advance is the real code's endless
                     loop and is reported as `outOfFuel`).
* `scanLines`, `tokenize` — the `for line_id, text_line in …` loop, the "span is never closed" error and the
                     `$END$` token.
* `splitNl`, `rstrip`, `tokLines`, `origLines` — `text.split('\n')`, `t.rstrip()`; what the tokenizer and
                     what `get_orig_text` see for `str` / list input.
* `getOrigText`    — `TElement.get_orig_text` with all its `assert`s.
* `Tree`, `spanT`, `spanF` — the span computation done by `LLParser.parse` when a production is completed
                     (`TElement.__init__`: first child's start; the `last_matched` code: end of the last child
                     with `start != end`, else the start; empty production: `tokens[cur].start_pos` twice),
                     over the final shape of the tree (suffix elements already spliced).
-/
namespace SrcPos
open Ak

/-! ## positions -/

structure Pos where
  line : Nat
  col : Nat
  deriving DecidableEq, Repr, Inhabited

instance : LE Pos := ⟨fun a b => a.line < b.line ∨ (a.line = b.line ∧ a.col ≤ b.col)⟩
instance : LT Pos := ⟨fun a b => a.line < b.line ∨ (a.line = b.line ∧ a.col < b.col)⟩
instance (a b : Pos) : Decidable (a ≤ b) :=
  inferInstanceAs (Decidable (a.line < b.line ∨ (a.line = b.line ∧ a.col ≤ b.col)))
instance (a b : Pos) : Decidable (a < b) :=
  inferInstanceAs (Decidable (a.line < b.line ∨ (a.line = b.line ∧ a.col < b.col)))

structure Span where
  s : Pos
  e : Pos
  deriving DecidableEq, Repr, Inhabited

structure Bases where
  initLine : Nat   -- prev_end_pos = SrcPos(src_name, 1, 1)
  initCol : Nat
  lineBase : Nat   -- enumerate(…, start=1)
  startOff : Nat   -- SrcPos(src_name, line_id, col + 1)
  endOff : Nat     -- SrcPos(src_name, line_id, match.end() + 1)
  errOff : Nat     -- LexicalError(SrcPos(src_name, line_id, col), …)
  origDec : Nat    -- get_orig_text: start_l -= 1; start_c -= 1; end_l -= 1; end_c -= 1
  deriving DecidableEq, Repr

/-- the values the source has today (`C04.bases_std` re-decides that on every run) -/
def Bases.std : Bases := ⟨1, 1, 1, 1, 1, 0, 1⟩

/-! ## text -/

/-- Python `l[a:b]` for `0 ≤ a, b` -/
def slice {α} (l : List α) (a b : Nat) : List α := (l.take b).drop a

/-- `text.split('\n')` (never empty: `"".split('\n') == [""]`) -/
def splitNl : List Char → List (List Char)
  | [] => [[]]
  | c :: cs =>
    if c = '\n' then [] :: splitNl cs
    else match splitNl cs with
      | [] => [[c]]            -- not reachable (`splitNl_ne_nil`)
      | l :: ls => (c :: l) :: ls

/-- `"\n".join(lines)` -/
def joinNl : List (List Char) → List Char
  | [] => []
  | [l] => l
  | l :: ls => l ++ '\n' :: joinNl ls

/-- `t.rstrip()`; `ws` = `str.isspace` -/
def rstrip (ws : Char → Bool) (l : List Char) : List Char := (l.reverse.dropWhile ws).reverse

/-- the text handed to `tokenize` / `get_orig_text`: a `str` or a list of lines -/
inductive Input where
  | str (text : List Char)
  | lines (ls : List (List Char))
  deriving Repr

/-- the lines the tokenizer iterates over -/
def tokLines (ws : Char → Bool) : Input → List (List Char)
  | .str t => (splitNl t).map (rstrip ws)
  | .lines ls => ls

/-- the lines `get_orig_text` slices -/
def origLines : Input → List (List Char)
  | .str t => splitNl t
  | .lines ls => ls

/-! ## the tokenizer -/

structure Match where
  stop : Nat     -- match.end()
  kind : Nat     -- number of match.lastgroup
  gs : Nat       -- match.start(lastgroup)
  ge : Nat       -- match.end(lastgroup)
  deriving DecidableEq, Repr

structure Re where
  norm : Nat → Nat → Option Match
  body : Nat → Nat → Nat → Option Match

structure Cfg where
  spanKinds : List Nat                        -- keys of span_matchers
  synonyms : List (Nat × Nat)
  keywords : List ((Nat × List Char) × Nat)
  endName : Nat

def assoc {α β} [DecidableEq α] : List (α × β) → α → Option β
  | [], _ => none
  | (k, v) :: r, a => if k = a then some v else assoc r a

/-- `self.synonyms.get(name, name)` -/
def Cfg.syn (cfg : Cfg) (k : Nat) : Nat :=
  match assoc cfg.synonyms k with
  | some v => v
  | none => k

/-- `self.keywords.get((name, value))`, falling back to `name` -/
def Cfg.kw (cfg : Cfg) (k : Nat) (v : List Char) : Nat :=
  match assoc cfg.keywords (k, v) with
  | some n => n
  | none => k

structure Tok where
  name : Nat
  val : Option (List Char)     -- `None` for `$END$`
  s : Pos
  e : Pos
  deriving DecidableEq, Repr

def Tok.span (t : Tok) : Span := ⟨t.s, t.e⟩

structure SpanSt where
  kind : Nat                   -- cur_span_symbol
  start : Pos                  -- cur_span_start_pos
  acc : List (List Char)       -- cur_span_lines

structure St where
  prevEnd : Pos
  span : Option SpanSt

inductive TokErr where
  | lexical (p : Pos)          -- LexicalError with src_pos.coords = p
  | py (e : Err)
  deriving DecidableEq, Repr

def scanLine (B : Bases) (cfg : Cfg) (re : Re) (i : Nat) (line : List Char) :
    Nat → Nat → St → Except TokErr (St × List Tok)
  | 0, col, st => if col < line.length then .error (.py .outOfFuel) else .ok (st, [])
  | fuel + 1, col, st =>
    if col < line.length then
      let lineId := B.lineBase + i
      match st.span with
      | some sp =>
        match re.body sp.kind i col with
        | none =>
          -- closer not on this line: cur_span_lines.append(text_line[col:]); col = len(text_line)
          .ok ({ st with span := some { sp with acc := sp.acc ++ [line.drop col] } }, [])
        | some m =>
          if col < m.stop then
            let e : Pos := ⟨lineId, m.stop + B.endOff⟩
            let t : Tok := ⟨cfg.syn sp.kind, some (joinNl (sp.acc ++ [slice line m.gs m.ge])), sp.start, e⟩
            match scanLine B cfg re i line fuel m.stop ⟨e, none⟩ with
            | .ok (st', ts) => .ok (st', t :: ts)
            | .error x => .error x
          else .error (.py .outOfFuel)
      | none =>
        match re.norm i col with
        | none => .error (.lexical ⟨lineId, col + B.errOff⟩)
        | some m =>
          if col < m.stop then
            let here : Pos := ⟨lineId, col + B.startOff⟩
            let start : Pos := if st.prevEnd = here then st.prevEnd else here
            if m.kind ∈ cfg.spanKinds then
              scanLine B cfg re i line fuel m.stop
                { st with span := some ⟨m.kind, start, []⟩ }
            else
              let v := slice line m.gs m.ge
              let e : Pos := ⟨lineId, m.stop + B.endOff⟩
              let t : Tok := ⟨cfg.kw (cfg.syn m.kind) v, some v, start, e⟩
              match scanLine B cfg re i line fuel m.stop ⟨e, none⟩ with
              | .ok (st', ts) => .ok (st', t :: ts)
              | .error x => .error x
          else .error (.py .outOfFuel)
    else .ok (st, [])

def scanLines (B : Bases) (cfg : Cfg) (re : Re) :
    Nat → List (List Char) → St → Except TokErr (St × List Tok)
  | _, [], st => .ok (st, [])
  | i, l :: ls, st =>
    match scanLine B cfg re i l l.length 0 st with
    | .error x => .error x
    | .ok (st1, ts1) =>
      match scanLines B cfg re (i + 1) ls st1 with
      | .error x => .error x
      | .ok (st2, ts2) => .ok (st2, ts1 ++ ts2)

def endTok (cfg : Cfg) (p : Pos) : Tok := ⟨cfg.endName, none, p, p⟩

/-- `_Tokenizer.tokenize` (all tokens, skipped ones included, `$END$` last) -/
def tokenize (B : Bases) (cfg : Cfg) (re : Re) (lines : List (List Char)) :
    Except TokErr (List Tok) :=
  match scanLines B cfg re 0 lines ⟨⟨B.initLine, B.initCol⟩, none⟩ with
  | .error x => .error x
  | .ok (st, ts) =>
    match st.span with
    | some _ => .error (.lexical st.prevEnd)     -- "span is never closed"
    | none => .ok (ts ++ [endTok cfg st.prevEnd])

/-! ## `re` supplied as a table (driver) -/

/-- per line: the row of the ordinary matcher and one row per span kind; a row has one entry per
column of the line -/
structure LineTbl where
  norm : List (Option Match)
  bodies : List (List (Option Match))

def idxOf : List Nat → Nat → Option Nat
  | [], _ => none
  | a :: as, k => if a = k then some 0 else (idxOf as k).map (· + 1)

def reOfTable (spanKinds : List Nat) (tbl : List LineTbl) : Re where
  norm i c := match tbl[i]? with
    | some r => match r.norm[c]? with
      | some e => e
      | none => none
    | none => none
  body k i c := match tbl[i]?, idxOf spanKinds k with
    | some r, some j => match r.bodies[j]? with
      | some row => match row[c]? with
        | some e => e
        | none => none
      | none => none
    | _, _ => none

/-- a match ends inside its line -/
def entryIn (n : Nat) : Option Match → Bool
  | none => true
  | some m => m.stop ≤ n

/-- the table has exactly the shape of the text (checked by the driver before `reOfTable` is used,
so that a missing entry can never be read as "no match") and every match ends inside its line (the
hypothesis `ReIn` of the theorems, checked on every request) -/
def tableOk (spanKinds : List Nat) : List (List Char) → List LineTbl → Bool
  | [], [] => true
  | l :: ls, r :: rs =>
    r.norm.length == l.length && r.bodies.length == spanKinds.length &&
    r.bodies.all (fun row => row.length == l.length) &&
    r.norm.all (entryIn l.length) && r.bodies.all (fun row => row.all (entryIn l.length)) &&
    tableOk spanKinds ls rs
  | _, _ => false

/-! ## get_orig_text -/

def getOrigText (B : Bases) (lines : List (List Char)) (s e : Pos) : Except Err (List Char) :=
  if ¬ s ≤ e then .error .assertion
  else if s.line < B.origDec ∨ s.col < B.origDec ∨ e.line < B.origDec ∨ e.col < B.origDec then
    .error .assertion
  else
    let sl := s.line - B.origDec
    let sc := s.col - B.origDec
    let el := e.line - B.origDec
    let ec := e.col - B.origDec
    match lines[sl]?, lines[el]? with
    | some ls, some le =>
      if sl = el then
        if ec ≤ le.length then .ok (slice ls sc ec) else .error .assertion
      else
        if ¬ sc ≤ ls.length then .error .assertion
        else if ¬ ec ≤ le.length then .error .assertion
        else .ok (joinNl ([ls.drop sc] ++ slice lines (sl + 1) el ++ [le.take ec]))
    | _, _ => .error .assertion      -- assert end_l < len(lines)   (start_l ≤ end_l)

/-! ## spans of tree nodes -/

mutual
inductive Tree where
  | tok : Tree                 -- leaf made from a token
  | nul : Tree                 -- completed empty production (`value is None`)
  | node : Forest → Tree
inductive Forest where
  | nil : Forest
  | cons : Tree → Forest → Forest
end

/-- a node of the tree: the tokens `[lo, hi)` below it and its span -/
structure NodeInfo where
  lo : Nat
  hi : Nat
  span : Span
  deriving DecidableEq, Repr

/-- end of the last child with `start != end` (the `last_matched` code) -/
def lastMatchedEnd : List Span → Option Pos
  | [] => none
  | c :: cs =>
    match lastMatchedEnd cs with
    | some p => some p
    | none => if c.s ≠ c.e then some c.e else none

mutual
/-- span of a subtree laid over the (non-skipped) tokens from index `k` on; also the index of the
next token and the spans of all nodes in pre-order -/
def spanT (toks : List Span) : Tree → Nat → Except Err (Span × Nat × List NodeInfo)
  | .tok, k =>
    match toks[k]? with
    | some sp => .ok (sp, k + 1, [⟨k, k + 1, sp⟩])
    | none => .error .indexError
  | .nul, k =>
    match toks[k]? with      -- cur_src_pos = tokens[top.cur_token_pos].start_pos
    | some sp => .ok (⟨sp.s, sp.s⟩, k, [⟨k, k, ⟨sp.s, sp.s⟩⟩])
    | none => .error .indexError
  | .node cs, k =>
    match spanF toks cs k with
    | .error e => .error e
    | .ok (chs, k', all) =>
      match chs with
      | [] => .error .indexError                 -- self.value[0]
      | c0 :: _ =>
        let e := match lastMatchedEnd chs with
          | some p => p
          | none => c0.s
        .ok (⟨c0.s, e⟩, k', ⟨k, k', ⟨c0.s, e⟩⟩ :: all)
def spanF (toks : List Span) : Forest → Nat → Except Err (List Span × Nat × List NodeInfo)
  | .nil, k => .ok ([], k, [])
  | .cons t f, k =>
    match spanT toks t k with
    | .error e => .error e
    | .ok (sp, k1, a1) =>
      match spanF toks f k1 with
      | .error e => .error e
      | .ok (sps, k2, a2) => .ok (sp :: sps, k2, a1 ++ a2)
end

/-- `[t for t in tokens if t.name not in self.skip_tokens]` -/
def dropSkipped (skip : List Nat) (ts : List Tok) : List Tok := ts.filter (fun t => ¬ t.name ∈ skip)

end SrcPos
