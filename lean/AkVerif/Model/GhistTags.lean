import AkVerif.Model.Ghist
/-!
From git tags to build numbers (`ProjectRepo.parse_buildtag`, `guess_major_minor_build_by_tag_substr`,
`RepoBuildsByTagDetector.finalize_build_tag_info`): the two regular expressions of `ProjectRepo` are of the shape
`pre (\d+) sep (.*) suf $` and `pre (\d+) sep (\d+) $`, applied with `.match`; the translator reads their literal
pieces into `Gen.Ghist` (and checks the shape, and that a separator does not start with a digit — then the greedy `\d+`
never backtracks).  Names are ASCII without line breaks: `\d` = `0`..`9`, `int()` = decimal value.
-/
namespace Ghist
open Ak

def isDigit (c : Char) : Bool := 48 ≤ c.toNat && c.toNat ≤ 57

/-- `\d+` at the start of `s` : the maximal run of digits and the rest -/
def takeDigits : List Char → List Char × List Char
  | [] => ([], [])
  | c :: cs => if isDigit c then ((c :: (takeDigits cs).1), (takeDigits cs).2) else ([], c :: cs)

def stripPrefix : List Char → List Char → Option (List Char)
  | [], s => some s
  | _ :: _, [] => none
  | p :: ps, c :: cs => if p = c then stripPrefix ps cs else none

def stripSuffix (suf s : List Char) : Option (List Char) :=
  (stripPrefix suf.reverse s.reverse).map List.reverse

/-- `_RE_BUILD_TAG.match(tag)` : (`build`, `branch`) -/
def parseBuildTag (s : List Char) : Option (Nat × List Char) :=
  match stripPrefix Gen.Ghist.tagPre s with
  | none => none
  | some r =>
    let ds := (takeDigits r).1
    if ds.isEmpty then none
    else
      match stripPrefix Gen.Ghist.tagSep (takeDigits r).2 with
      | none => none
      | some r2 =>
        match stripSuffix Gen.Ghist.tagSuf r2 with
        | none => none
        | some br => some (digitsVal ds 0, br)

/-- `_RE_BRANCH_IN_TAG_SUBSTR.match(branch_str)` : (major, minor) -/
def parseBranchStr (s : List Char) : Option (Nat × Nat) :=
  match stripPrefix Gen.Ghist.brPre s with
  | none => none
  | some r =>
    let d1 := (takeDigits r).1
    if d1.isEmpty then none
    else
      match stripPrefix Gen.Ghist.brSep (takeDigits r).2 with
      | none => none
      | some r2 =>
        let d2 := (takeDigits r2).1
        if d2.isEmpty || !(takeDigits r2).2.isEmpty then none
        else some (digitsVal d1 0, digitsVal d2 0)

/-- `search_text in commit.message` (`ProjectRepo.build_report_rgraph`): the text occurs somewhere in the message,
taken as it is — blanks, upper/lower case and line breaks count, the empty text occurs in every message -/
def occursIn (text : List Char) : List Char → Bool
  | [] => text.isEmpty
  | c :: cs => text.isPrefixOf (c :: cs) || occursIn text cs

/-- a commit as git shows it: the names of its tags, and major.minor of the version file saved in it when the
project keeps one (`get_saved_build_number`, project specific) -/
structure RawCommit (π : Type) where
  parents : List Nat
  tagNames : List (List Char)
  saved : Option (Nat × Nat)
  isMatch : Bool
  pins : π
  time : Nat

/-- how the model writes the `'?'` that `get_saved_build_number` puts for major and minor when no version file can be
read: `BuildNumData.cmp` treats everything that is not an int as bigger than every int and as equal to each other, and
that is how this number behaves as long as the real numbers stay below it (the drivers print it as `?`) -/
def unknownNum : Nat := 1000000000000000000

/-- the build number of one tag: `none` for a tag that is not a successful-build tag; major.minor from the branch part
of the tag, else from the saved version, else unknown (`'?'`); patch = build. -/
def tagBN (saved : Option (Nat × Nat)) (s : List Char) : Except Unit (Option BN) :=
  match parseBuildTag s with
  | none => .ok none
  | some (build, br) =>
    match parseBranchStr br with
    | some (M, m) => .ok (some ⟨M, m, build, build⟩)
    | none =>
      match saved with
      | some (M, m) => .ok (some ⟨M, m, build, build⟩)
      | none => .ok (some ⟨unknownNum, unknownNum, build, build⟩)

def tagBNs (saved : Option (Nat × Nat)) : List (List Char) → Except Unit (List BN)
  | [] => .ok []
  | s :: ss =>
    match tagBN saved s, tagBNs saved ss with
    | .ok (some bn), .ok r => .ok (bn :: r)
    | .ok none, .ok r => .ok r
    | _, _ => .error ()

def RawCommit.toCommit {π} (c : RawCommit π) : Except Unit (Commit π) :=
  match tagBNs c.saved c.tagNames with
  | .ok ts => .ok { parents := c.parents, tags := ts, isMatch := c.isMatch, pins := c.pins, time := c.time }
  | .error _ => .error ()

/-! ### the second way to detect builds: the number saved in a file (`RepoBuildsBySavedBuildNumDetector`) -/

/-- `is_build_commit` : the number saved in the commit differs from the number saved in every parent (`sv` = the saved
numbers of all the commits of the repository, by commit id) -/
def savedIsBuild (sv : List BN) (parents : List Nat) (c : Nat) : Bool :=
  parents.all fun p => sv[p]? != sv[c]?

/-- the build numbers of a commit under this detector, as the tag-based model sees them: the saved number when the
commit is a build, none otherwise.  (The code shows the saved number also for a branch head that is not a build, where
the model says "not built": histories whose release heads are builds are inside the model, the harness keeps to them.) -/
def savedTags (sv : List BN) (parents : List Nat) (c : Nat) : List BN :=
  if savedIsBuild sv parents c then (match sv[c]? with | some b => [b] | none => []) else []

def toCommits {π} : List (RawCommit π) → Except Unit (List (Commit π))
  | [] => .ok []
  | c :: cs =>
    match c.toCommit, toCommits cs with
    | .ok x, .ok r => .ok (x :: r)
    | _, _ => .error ()

end Ghist
