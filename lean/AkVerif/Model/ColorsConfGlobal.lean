import AkVerif.Model.ColorsConf
/-!
Model of `ak/color.py` for C14, continued: the module state `_GLOBAL_COLORS_CONF` / `_GSYNCED_PALETTES`
(part 6: one configuration that may be the global one, synced palettes, nested re-syncs; part 7: several
configurations taking turns as the global one; part 8: kept results of `get_palette()`).  The driver executes `stepK`
(`stepM` through `KOp.m`).
-/
namespace ColorsConf
open Ak

/-! ## Part 6: the configuration as *the global one*, synced palettes

`ak.color` keeps two module variables: `_GLOBAL_COLORS_CONF` and `_GSYNCED_PALETTES` (class -> the one
synced palette of that class).  A registration that modifies the global configuration ends with
`set_global_colors_config(self)`, which makes every synced palette register its class in the configuration
(possibly modifying it again, hence nested re-syncs) and re-read its accessors.  One case of the protocol
sees one configuration; `GWorld` adds whether it is the global one and the synced palettes created in the
case, as snapshots of the current values of their accessor attributes. -/

structure GWorld where
  w : World
  isGlobal : Bool
  synced : List (Nat × Snap)

/-- `for palette in _GSYNCED_PALETTES.values(): palette._sync_with_config(conf)`; `regC` is
`register_in_colors_conf` -/
def syncList (classes : List ClassDef) (regC : GWorld → Nat → Except Err GWorld) :
    GWorld → List Nat → Except Err GWorld
  | g, [] => .ok g
  | g, k :: ks =>
    match regC g k with
    | .error x => .error x
    | .ok g1 =>
      match classes[k]? with
      | none => .error .keyError
      | some cd =>
        syncList classes regC { g1 with synced := cacheSet g1.synced k (snapOf g1.w.conf cd.accessors) } ks

/-- `add_new_items` including its last step: `if any_modifications and self is _GLOBAL_COLORS_CONF:
set_global_colors_config(self)`.  Something was modified (an item inserted or resolved) exactly when the
map differs from the one before. -/
def addWith (sync : GWorld → Except Err GWorld) (g : GWorld) (items : List (Id × Str)) : Except Err GWorld :=
  match addNewItems g.w.conf items with
  | .error x => .error x
  | .ok c' =>
    let g' : GWorld := { g with w := { g.w with conf := c' } }
    if g.isGlobal && decide (c'.map ≠ g.w.conf.map) then sync g' else .ok g'

/-- `register_color_conf_component` on a possibly global configuration -/
def regCompWith (sync : GWorld → Except Err GWorld) (g : GWorld) (cfg : Cfg) (src : Src) : Except Err GWorld :=
  if src ∈ g.w.conf.sources then .error .assertion
  else addWith sync { g with w := { g.w with conf := { g.w.conf with sources := src :: g.w.conf.sources } } }
    (flatten cfg)

/-- `Palette.register_in_colors_conf` on a possibly global configuration; a modification re-syncs every
synced palette, which registers classes again one level of fuel lower -/
def registerClassG (classes : List ClassDef) : Nat → GWorld → Nat → Except Err GWorld
  | 0, _, _ => .error .outOfFuel
  | fuel + 1, g, k =>
    if Src.cls k ∈ g.w.conf.sources then .ok g else
    match classes[k]? with
    | none => .error .keyError
    | some cd =>
      match regParents (registerClassG classes fuel) g cd.parents with
      | .error x => .error x
      | .ok g1 =>
        match cd.defaults with
        | none => .ok g1
        | some cfg =>
          regCompWith (fun g' => syncList classes (registerClassG classes fuel) g' (g'.synced.map (·.1)))
            g1 cfg (.cls k)

/-- `set_global_colors_config(conf)`'s loop over the synced palettes -/
def syncTop (classes : List ClassDef) (g : GWorld) : Except Err GWorld :=
  syncList classes (registerClassG classes (gFuel classes)) g (g.synced.map (·.1))

/-- `PaletteClass(colors_conf, no_color)` on a possibly global configuration (as `getPalette`) -/
def getPaletteG (classes : List ClassDef) (g : GWorld) (k : Nat) (noColor : Bool) :
    Except Err (GWorld × Snap) :=
  match classes[k]? with
  | none => .error .keyError
  | some cd =>
    if noColor then
      match registerClassG classes (gFuel classes) g k with
      | .error x => .error x
      | .ok g1 =>
        match cacheGet g1.w.ncCache k with
        | some s => .ok (g1, s)
        | none =>
          let s := plainSnap cd.accessors
          .ok ({ g1 with w := { g1.w with ncCache := cacheSet g1.w.ncCache k s } }, s)
    else
      match cacheGet g.w.conf.cache k with
      | some s => .ok (g, s)
      | none =>
        match registerClassG classes (gFuel classes) g k with
        | .error x => .error x
        | .ok g1 =>
          let s := snapOf g1.w.conf cd.accessors
          .ok ({ g1 with w := { g1.w with conf := { g1.w.conf with cache := cacheSet g1.w.conf.cache k s } } }, s)

inductive GOp where
  | op (o : Op)             -- an operation on the configuration (Part 4)
  | setGlobal               -- `set_global_colors_config(conf)`
  | syn (k : Nat)           -- `P_k(synced=True)` (the configuration must be the global one)
  | sget (k : Nat)          -- read the accessor attributes of the synced palette of class `k`

def stepG (classes : List ClassDef) (g : GWorld) : GOp → Except Err (GWorld × Option Snap)
  | .op (.add items) =>
    match addWith (syncTop classes) g items with
    | .ok g' => .ok (g', none)
    | .error x => .error x
  | .op (.reg name cfg) =>
    match regCompWith (syncTop classes) g cfg (.name name) with
    | .ok g' => .ok (g', none)
    | .error x => .error x
  | .op (.pal k nc) =>
    match getPaletteG classes g k nc with
    | .ok (g', s) => .ok (g', some s)
    | .error x => .error x
  | .op (.get _) => .ok (g, none)
  | .setGlobal =>
    match syncTop classes { g with isGlobal := true } with
    | .ok g' => .ok (g', none)
    | .error x => .error x
  | .syn k =>
    match cacheGet g.synced k with
    | some s => .ok (g, some s)
    | none =>
      match classes[k]? with
      | none => .error .keyError
      | some cd =>
        -- while another configuration is the global one the palette is built from that one: its attributes are
        -- not known to this model (placeholder; never read: `sget` is answered only once `isGlobal`)
        if !g.isGlobal then .ok ({ g with synced := g.synced ++ [(k, plainSnap cd.accessors)] }, none) else
        match registerClassG classes (gFuel classes) g k with
        | .error x => .error x
        | .ok g1 =>
          let s := snapOf g1.w.conf cd.accessors
          .ok ({ g1 with synced := g1.synced ++ [(k, s)] }, some s)
  | .sget k =>
    match cacheGet g.synced k with
    | some s => .ok (g, some s)
    | none => .error .keyError

def runG (classes : List ClassDef) : GWorld → List GOp → Except Err GWorld
  | g, [] => .ok g
  | g, op :: ops =>
    match stepG classes g op with
    | .ok (g', _) => runG classes g' ops
    | .error x => .error x

/-! ## Part 7: several configurations taking turns as the global one

`_GLOBAL_COLORS_CONF` names one configuration at a time; `set_global_colors_config(B)` *replaces* it.  A
registration into a configuration re-syncs the synced palettes only `if … self is _GLOBAL_COLORS_CONF`, i.e.
only while that configuration is the current global one.  `MWorld` holds the configurations of a case, the
index of the global one (`none`: still a configuration outside the case), the synced palettes and the per-class
no-colour palettes (class attributes, shared by all configurations).  Every operation on configuration `i` is
the operation of part 6 on the view `viewOf m i` — with `isGlobal` true exactly when `i` is the global index —
written back with `putBack`. -/

structure MWorld where
  confs : List Conf
  ncCache : List (Nat × Snap)
  glob : Option Nat
  synced : List (Nat × Snap)

/-- configuration `i` as the single configuration of part 6 -/
def viewOf (m : MWorld) (i : Nat) (c : Conf) : GWorld :=
  ⟨⟨c, m.ncCache⟩, decide (m.glob = some i), m.synced⟩

def putBack (m : MWorld) (i : Nat) (g : GWorld) : MWorld :=
  { m with confs := m.confs.set i g.w.conf, ncCache := g.w.ncCache, synced := g.synced }

inductive MOp where
  | new (noColor : Bool) (cfg : Cfg)   -- `ColorsConfig(cfg, no_color=…)`: one more configuration
  | on (i : Nat) (o : Op)              -- an operation of part 4 on configuration `i`
  | setGlobal (i : Nat)                -- `set_global_colors_config(conf_i)`
  | syn (k : Nat)                      -- `P_k(synced=True)`: built from the current global configuration
  | sget (k : Nat)                     -- read the accessor attributes of the synced palette of class `k`

def stepM (classes : List ClassDef) (m : MWorld) : MOp → Except Err (MWorld × Option Snap)
  | .new nc cfg =>
    match newConf nc cfg with
    | .ok c => .ok ({ m with confs := m.confs ++ [c] }, none)
    | .error x => .error x
  | .on i o =>
    match m.confs[i]? with
    | none => .error .keyError
    | some c =>
      match stepG classes (viewOf m i c) (.op o) with
      | .ok (g, s) => .ok (putBack m i g, s)
      | .error x => .error x
  | .setGlobal i =>
    match m.confs[i]? with
    | none => .error .keyError
    | some c =>
      match stepG classes (viewOf m i c) .setGlobal with
      | .ok (g, s) => .ok ({ putBack m i g with glob := some i }, s)
      | .error x => .error x
  | .syn k =>
    match m.glob with
    | some j =>
      match m.confs[j]? with
      | none => .error .keyError
      | some c =>
        match stepG classes (viewOf m j c) (.syn k) with
        | .ok (g, s) => .ok (putBack m j g, s)
        | .error x => .error x
    | none =>
      -- the global configuration is outside the case: only the placeholder of part 6 is recorded
      match stepG classes ⟨⟨⟨false, [], [], []⟩, m.ncCache⟩, false, m.synced⟩ (.syn k) with
      | .ok (g, s) => .ok ({ m with synced := g.synced }, s)
      | .error x => .error x
  | .sget k =>
    match cacheGet m.synced k with
    | some s => .ok (m, some s)
    | none => .error .keyError

/-- `conf.get_palette()`: a `GlobalPalette` over this configuration (no defaults of its own, so obtaining it
registers nothing); its accessor attributes are fixed when it is built … -/
def globalPaletteOf (c : Conf) : Snap := snapOf c Gen.C14.gpAccessors

/-- … while `palette[id]` of a kept result of `get_palette()` asks the configuration it was obtained from, now
(whichever configuration is the global one at that time) -/
def keptItem (m : MWorld) (i : Nat) (id : Id) : Option Str := (m.confs[i]?).map fun c => getColor c id

def runM (classes : List ClassDef) : MWorld → List MOp → Except Err MWorld
  | m, [] => .ok m
  | m, op :: ops =>
    match stepM classes m op with
    | .ok (m', _) => runM classes m' ops
    | .error x => .error x

/-! ## Part 8: results of `conf.get_palette()` that the caller keeps

The caller holds on to palette objects obtained from configurations while the configurations go on changing and take
turns as the global one.  `KWorld` adds these objects to the module state: for each the index of the configuration it
was obtained from and its accessor attributes as built.  The driver executes `stepK`. -/

structure KWorld where
  m : MWorld
  kept : List (Nat × Snap)

inductive KOp where
  | m (op : MOp)                 -- an operation of part 7
  | gpal (i : Nat)               -- `conf_i.get_palette()`; the result is kept
  | gread (n : Nat) (id : Id)    -- kept palette #n: its accessor attributes and `palette[id]`

structure KReply where
  snap : Option Snap
  item : Option Str

def stepK (classes : List ClassDef) (k : KWorld) : KOp → Except Err (KWorld × KReply)
  | .m op =>
    match stepM classes k.m op with
    | .ok (m', s) => .ok ({ k with m := m' }, ⟨s, none⟩)
    | .error x => .error x
  | .gpal i =>
    match k.m.confs[i]? with
    | none => .error .keyError
    | some c =>
      let s := globalPaletteOf c
      .ok ({ k with kept := k.kept ++ [(i, s)] }, ⟨some s, none⟩)
  | .gread n id =>
    match k.kept[n]? with
    | none => .error .keyError
    | some (i, s) =>
      match keptItem k.m i id with
      | none => .error .keyError
      | some f => .ok (k, ⟨some s, some f⟩)

def runK (classes : List ClassDef) : KWorld → List KOp → Except Err KWorld
  | k, [] => .ok k
  | k, op :: ops =>
    match stepK classes k op with
    | .ok (k', _) => runK classes k' ops
    | .error x => .error x

/-- a whole case of the protocol: the constructor, then operations on the configuration and on the module
state (`run` of part 4 is the special case without `setGlobal`/`syn`/`sget`: `C14.global_off_same`) -/
def runAll (classes : List ClassDef) (noColor : Bool) (cfg : Cfg) (ops : List GOp) : Except Err GWorld :=
  match newConf noColor cfg with
  | .ok c => runG classes ⟨⟨c, []⟩, false, []⟩ ops
  | .error x => .error x

end ColorsConf
