import AkVerif.Model.Common
/-!
Model of `LLParser.parse` (`/repo/ak/llparser.py`, the `while True:` stack machine), generic in
the symbol type `σ`.  Used by C01, C02, C03 (and C04/C05 on top of it).

* `Tok`      — a token as the parser sees it: name after synonyms/keywords, value.
* `Tree`     — `TElement` without positions: `leaf name value` | `node name children`
               (`node n []` is the element with `value=None` built for an empty production).
* `Cfg`      — what `parse` consults: `self.terminals`, `self.parse_table.get((X, t))`,
               `self._suffix_symbols`.
* `Frame`    — `_StackElement`: symbol, `start_token_pos`, `cur_token_pos`, `prod_rs`
               (right-hand sides only), `cur_prod_id`, `values`.
* `backtrack`— the roll-back search (nearest frame from the top with `cur_prod_id < len-1`,
               frames above dropped, `switch_to_next_prod`).
* `splice`   — merging the children of a factorised suffix node into its parent.
* `step`     — one iteration of the loop; the stack is a list with the top frame first.
               `stuck` stands for the places where Python would raise `IndexError`
               (`parse_stack[-1]`, `tokens[cur]`, `prod_rs[cur_prod_id]`) or fail the final
               `assert`; they are proved unreachable (`C03.run_no_stuck`).
* `run`      — the loop with fuel; `outOfFuel` is explicit and excluded by `C03.run_terminates`.
-/
namespace LL
open Ak

variable {σ : Type} [DecidableEq σ]

structure Tok (σ : Type) where
  name : σ
  val : List Char

inductive Tree (σ : Type) where
  | leaf (name : σ) (val : List Char)
  | node (name : σ) (children : List (Tree σ))

def Tree.name : Tree σ → σ
  | .leaf n _ => n
  | .node n _ => n

def Tree.children : Tree σ → List (Tree σ)
  | .leaf _ _ => []
  | .node _ cs => cs

mutual
/-- leaves left to right -/
def Tree.yield : Tree σ → List (Tok σ)
  | .leaf n v => [⟨n, v⟩]
  | .node _ cs => Tree.yieldList cs
def Tree.yieldList : List (Tree σ) → List (Tok σ)
  | [] => []
  | t :: ts => t.yield ++ Tree.yieldList ts
end

structure Cfg (σ : Type) where
  isTerm : σ → Bool
  table : σ → σ → Option (List (List σ))
  isSuffix : σ → Bool

structure Frame (σ : Type) where
  sym : σ
  start : Nat
  cur : Nat
  alts : List (List σ)
  idx : Nat
  vals : List (Tree σ)

inductive Res (σ : Type) where
  | cont (st : List (Frame σ))
  | done (t : Tree σ)
  | fail
  | stuck

/-- roll-back: nearest frame (from the top) with an untried alternative -/
def backtrack : List (Frame σ) → Res σ
  | [] => .fail
  | f :: rest =>
    if f.idx + 1 < f.alts.length then
      .cont ({ f with vals := [], cur := f.start, idx := f.idx + 1 } :: rest)
    else backtrack rest

/-- children of the node built for production `prod` from matched `vals` (suffix spliced) -/
def splice (G : Cfg σ) (prod : List σ) (vals : List (Tree σ)) : List (Tree σ) :=
  match prod.getLast?, vals.getLast? with
  | some s, some v => if G.isSuffix s then vals.dropLast ++ v.children else vals
  | _, _ => vals

def step (G : Cfg σ) (toks : List (Tok σ)) : List (Frame σ) → Res σ
  | [] => .stuck
  | top :: rest =>
    match top.alts[top.idx]? with
    | none => .stuck
    | some prod =>
      if top.vals.length = prod.length then
        let t := Tree.node top.sym (splice G prod top.vals)
        match rest with
        | [] => match t.children.head? with
                | some r => .done r
                | none => .stuck
        | parent :: rest' =>
          .cont ({ parent with vals := parent.vals ++ [t], cur := top.cur } :: rest')
      else
        match prod[top.vals.length]?, toks[top.cur]? with
        | some c, some tok =>
          if G.isTerm c then
            if tok.name = c then
              .cont ({ top with vals := top.vals ++ [Tree.leaf c tok.val], cur := top.cur + 1 } :: rest)
            else backtrack (top :: rest)
          else
            match G.table c tok.name with
            | some alts =>
              .cont ({ sym := c, start := top.cur, cur := top.cur, alts := alts, idx := 0, vals := [] }
                      :: top :: rest)
            | none => backtrack (top :: rest)
        | _, _ => .stuck

/-- the parse loop. `.error .indexError` = `stuck`. -/
def run (G : Cfg σ) (toks : List (Tok σ)) : Nat → List (Frame σ) → Except Err (Tree σ)
  | 0, _ => .error .outOfFuel
  | fuel + 1, st =>
    match step G toks st with
    | .cont st' => run G toks fuel st'
    | .done t => .ok t
    | .fail => .error .parsingError
    | .stuck => .error .indexError

/-- the initial stack: `$START$ -> (start, $END$)` at token 0 -/
def initStack (init start endS : σ) : List (Frame σ) :=
  [{ sym := init, start := 0, cur := 0, alts := [[start, endS]], idx := 0, vals := [] }]

end LL
