import AkVerif.Model.Common
import AkVerif.Gen.C08
/-!
Model of `CHText` / `CHText.Chunk` of `/repo/ak/color.py` (C08; shared with C09, C10, C12).

* A chunk is `(colour id, text)`. The colour id stands for the pair `(c_prefix, c_suffix)` of a
  `ColorFmt`-produced chunk (the suffix is a function of the prefix there); `0` is the plain chunk
  (`c_prefix == ""`). `has_same_type` compares prefixes = colour ids; chunk `==` compares prefix, text
  and suffix = `(col, text)`.
* A text is the list of chunks **and** the cached `scrlen` (the code reads `self.scrlen` in `__len__`,
  `__getitem__`, `__format__`, so the model does too; that it equals the sum is a theorem).
* `pushChunk`/`appendChunk` — `_append_chunk`; `iadd` — `__iadd__` (str / chunk / text / list / tuple,
  recursively); `construct` — `CHText(*parts)`; `add`, `radd` (= `construct [other, self]`), `join`;
  `locate` — `_get_chunk_pos` (returns the chunk, the position in it and the following chunks
  instead of an index); `getIndex`, `getSlice` (`takeChars` is the `while remain_len > 0` loop),
  `fixedLen`, `format` (returns the two pads; the body is `str(self)`), `eqText`/`eqStr`/`eqChunk`.
* The characters `__format__` and `fixed_len` are written with (`('>', '<', '^')`, the default align
  and fill, the type character `s`, the pad `" "`) are read from the source by the translator
  (`Gen.C08`), so a change there re-opens `C08.format_cells` / `C08.fixedLen_cells`.
* `pySlice`/`pyIndex` — Python's own `seq[i:j]` / `seq[i]` (used by `Chunk.__getitem__`, which calls
  `str` slicing directly, and as the *specification* the `CHText` operations are proved against).
* The model is value-based: an operation takes values and returns a value, there are no object
  identities. That is faithful because every operation of the real class except `+=` returns a new
  object (`fixed_len` too, since fix ec75272) and `+=` reads a snapshot of its operand (fix 6257f6b),
  so `t += t` and `t += [t]` are `iadd t (.text t)` / `iadd t (.list _ [.text t])`
  (`C08.self_iadd`). Not covered: a list operand that mentions the target more than once
  (`t += [t, t]` reads the second element after the first was appended: four copies, not three).
* `Expr`/`eval` — operation trees with Python's operator dispatch (`__add__`/`__radd__`/`__iadd__`/
  `__eq__` by operand type). Combinations that are plain Python (`str + str`) or that the property
  does not speak about (`list += text`) are `Fail.unmodelled`, never a made-up answer.
-/
namespace CHText
open Ak

abbrev Colour := Nat
abbrev Cells := List (Char × Colour)

structure Chunk where
  col : Colour
  text : List Char
  deriving DecidableEq, Repr

structure Text where
  scrlen : Nat
  chunks : List Chunk
  deriving DecidableEq, Repr

/-- `CHText()` -/
def Text.empty : Text := ⟨0, []⟩

/-- the chunk list after `_append_chunk` of a non-empty chunk: merge with the last chunk when it
has the same colour (`prev_chunk.clone(prev_chunk.text + chunk.text)`), else append -/
def pushChunk : List Chunk → Chunk → List Chunk
  | [], c => [c]
  | [p], c => if p.col = c.col then [⟨p.col, p.text ++ c.text⟩] else [p, c]
  | p :: q :: ps, c => p :: pushChunk (q :: ps) c

/-- `_append_chunk` -/
def appendChunk (t : Text) (c : Chunk) : Text :=
  if c.text = [] then t else ⟨t.scrlen + c.text.length, pushChunk t.chunks c⟩

/-- what `+=`, the constructor, `join` accept -/
inductive Part where
  | str (s : List Char)
  | chunk (c : Chunk)
  | text (t : Text)
  | list (tuple : Bool) (ps : List Part)
  deriving Repr

/-- `for part in other.chunks: self._append_chunk(part)` -/
def appendChunks (t : Text) : List Chunk → Text
  | [] => t
  | c :: cs => appendChunks (appendChunk t c) cs

mutual
/-- `__iadd__` -/
def iadd (t : Text) : Part → Text
  | .str s => appendChunk t ⟨0, s⟩
  | .chunk c => appendChunk t c
  | .text o => appendChunks t o.chunks
  | .list _ ps => iaddList t ps
def iaddList (t : Text) : List Part → Text
  | [] => t
  | p :: ps => iaddList (iadd t p) ps
end

/-- `CHText(*parts)` -/
def construct (parts : List Part) : Text := iaddList Text.empty parts

/-- `CHText.__add__`: `result = type(self)(self); result += other` -/
def Text.add (t : Text) (o : Part) : Text := iadd (construct [.text t]) o

/-- `CHText.__radd__` and `Chunk.__radd__`: `CHText(other, self)` -/
def radd (self other : Part) : Text := construct [other, self]

/-- the loop of `join` after the first element -/
def joinRest (sep : Text) (acc : Text) : List Part → Text
  | [] => acc
  | p :: ps => joinRest sep (iadd (iadd acc (.text sep)) p) ps

/-- `CHText.join` -/
def Text.join (sep : Text) : List Part → Text
  | [] => Text.empty
  | p :: ps => joinRest sep (iadd Text.empty p) ps

/-! ### Python's own sequence indexing (str / list) -/

/-- `PySlice_AdjustIndices` for step 1: negative bounds count from the end, everything is clamped
into `[0, len]` -/
def normBound (len : Nat) (x : Int) : Nat :=
  if x < 0 then (if x + len < 0 then 0 else (x + len).toNat) else (if x < len then x.toNat else len)

def sliceLo (len : Nat) : Option Int → Nat
  | none => 0
  | some x => normBound len x

def sliceHi (len : Nat) : Option Int → Nat
  | none => len
  | some x => normBound len x

/-- `l[i:j]` -/
def pySlice {α} (l : List α) (i j : Option Int) : List α :=
  (l.take (sliceHi l.length j)).drop (sliceLo l.length i)

/-- `l[i]` -/
def pyIndex {α} (l : List α) (i : Int) : Except Err α :=
  let k := if i < 0 then i + l.length else i
  if k < 0 then .error .indexError
  else match l[k.toNat]? with
    | some a => .ok a
    | none => .error .indexError

/-! ### index / slice over chunks -/

/-- `_get_chunk_pos` for a non-negative position: the chunk holding the position, the position
inside it, the chunks after it -/
def locate : List Chunk → Nat → Option (Chunk × Nat × List Chunk)
  | [], _ => none
  | c :: cs, p => if p < c.text.length then some (c, p, cs) else locate cs (p - c.text.length)

/-- `_get_chunk_pos`: `(None, None)` for a negative position -/
def getChunkPos (cs : List Chunk) (p : Int) : Option (Chunk × Nat × List Chunk) :=
  if p < 0 then none else locate cs p.toNat

/-- the `while remain_len > 0` loop of `__getitem__`, started on `cur :: following chunks` -/
def takeChars : List Chunk → Nat → List Chunk
  | [], _ => []
  | c :: cs, n =>
    if n = 0 then []
    else if n ≤ c.text.length then [⟨c.col, c.text.take n⟩]
    else c :: takeChars cs (n - c.text.length)

/-- `CHText(*chunks)` for a list of chunk objects -/
def fromChunks (cs : List Chunk) : Text := appendChunks Text.empty cs

/-- `text[i]` -/
def Text.getIndex (t : Text) (i : Int) : Except Err Text :=
  let idx : Int := if i < 0 then t.scrlen + i else i
  match getChunkPos t.chunks idx with
  | none => .error .indexError
  | some (c, p, _) =>
    match c.text[p]? with
    | some ch => .ok (fromChunks [⟨c.col, [ch]⟩])
    | none => .error .indexError      -- `cur_chunk.text[chunk_pos]`; unreachable (`C08.locate_pos`)

/-- bound normalisation of `CHText.__getitem__` (only negative bounds are touched) -/
def chBound (scrlen : Nat) (x : Int) : Int :=
  if x < 0 then (if (scrlen : Int) + x < 0 then 0 else scrlen + x) else x

/-- `start_pos` of `__getitem__(slice)` -/
def sliceStart (scrlen : Nat) : Option Int → Int
  | none => 0
  | some x => chBound scrlen x

/-- `end_pos` of `__getitem__(slice)` -/
def sliceStop (scrlen : Nat) : Option Int → Int
  | none => scrlen
  | some x => chBound scrlen x

/-- `text[i:j]` (no step) -/
def Text.getSlice (t : Text) (i j : Option Int) : Text :=
  let start : Int := sliceStart t.scrlen i
  let stop : Int := sliceStop t.scrlen j
  let remain := stop - start
  if remain ≤ 0 then Text.empty
  else match getChunkPos t.chunks start with
    | none => Text.empty
    | some (c, p, rest) => fromChunks (takeChars (⟨c.col, c.text.drop p⟩ :: rest) remain.toNat)

/-- `" " * n` -/
def spaces (n : Nat) : List Char := List.replicate n Gen.C08.padChar

/-- `CHText.fixed_len` -/
def Text.fixedLen (t : Text) (n : Int) : Text :=
  let diff : Int := n - t.scrlen
  if diff < 0 then t.getSlice none (some n)
  else if diff > 0 then t.add (.str (spaces diff.toNat))
  else construct [.text t]      -- `type(self)(self)`: a new object (fix ec75272), never `self`

/-! ### `__format__` -/

inductive Fail where
  | py (e : Err)
  | unmodelled
  deriving DecidableEq, Repr

/-- `ch in ('>', '<', '^')` (the tuple is read from the source: `Gen.C08.alignChars`) -/
def isAlign (c : Char) : Bool := Gen.C08.alignChars.contains c

def isAsciiDigit (c : Char) : Bool := '0' ≤ c && c ≤ '9'

def digitsVal (acc : Nat) : List Char → Nat
  | [] => acc
  | c :: cs => digitsVal (acc * 10 + (c.toNat - 48)) cs   -- ord('0') = 48

/-- `int(width_part)`. Only what the model is sure about: ASCII digit strings are numbers; a string
with an ASCII character that `int()` can never accept (not a digit, sign, underscore or white space)
is a `ValueError`; everything else (signs, underscores, blanks, non-ASCII digits) is not modelled. -/
def parseWidth (w : List Char) : Except Fail Nat :=
  if w = [] then .ok 0
  else if w.all isAsciiDigit then .ok (digitsVal 0 w)
  else if w.any (fun c => c.toNat < 128 && 32 < c.toNat && !isAsciiDigit c && c ≠ '+' && c ≠ '-' && c ≠ '_')
  then .error (.py .valueError)
  else .error .unmodelled

/-- the `while i >= 0` search of the align character at positions 1, 0 of the spec -/
def findAlign (spec : List Char) : Option (Nat × Char) :=
  match spec with
  | [] => none
  | [a] => if isAlign a then some (0, a) else none
  | a :: b :: _ => if isAlign b then some (1, b) else if isAlign a then some (0, a) else none

/-- the first step of `__format__`: validate and strip the format type character -/
def stripType (spec : List Char) : Except Fail (List Char) :=
  match spec.getLast? with
  | none => .ok spec
  | some last =>
    if last.toNat ≥ 128 then .error .unmodelled      -- `str.isdigit` of a non-ASCII character
    else if isAsciiDigit last || isAlign last then .ok spec
    else if last = Gen.C08.typeChar then .ok spec.dropLast
    else .error (.py .valueError)

/-- the rest of `__format__` up to the computation of the pads: `(left pad, right pad)` -/
def padsOf (scrlen : Nat) (spec : List Char) : Except Fail (List Char × List Char) :=
  let (alignPos, alignCh) : Int × Char :=
    match findAlign spec with
    | some (p, c) => ((p : Int), c)
    | none => (-1, Gen.C08.defaultAlign)
  let widthPart := spec.drop (alignPos + 1).toNat
  match parseWidth widthPart with
  | .error e => .error e
  | .ok width =>
    let fill : Char :=
      match spec, alignPos with
      | f :: _, 1 => f
      | _, _ => Gen.C08.defaultFill
    let fw := width - scrlen      -- `max(width - self.scrlen, 0)`
    if fw = 0 then .ok ([], [])
    else if alignCh = Gen.C08.leftAlign then .ok ([], List.replicate fw fill)
    else if alignCh = Gen.C08.rightAlign then .ok (List.replicate fw fill, [])
    else .ok (List.replicate (fw / 2) fill, List.replicate (fw - fw / 2) fill)

/-- `__format__` up to the computation of the pads; the result of the real method is
`left + str(self) + right` -/
def formatPads (scrlen : Nat) (spec : List Char) : Except Fail (List Char × List Char) :=
  match stripType spec with
  | .error e => .error e
  | .ok spec => padsOf scrlen spec

def Chunk.cells (c : Chunk) : Cells := c.text.map (·, c.col)

def cellsOf : List Chunk → Cells
  | [] => []
  | c :: cs => c.cells ++ cellsOf cs

/-- abstraction: the visible characters with their colours -/
def Text.cells (t : Text) : Cells := cellsOf t.chunks

def plainCells (s : List Char) : Cells := s.map (·, 0)

/-- `format(text, spec)` seen on the screen: pads are written outside any colour sequence -/
def Text.format (t : Text) (spec : List Char) : Except Fail Cells :=
  match formatPads t.scrlen spec with
  | .error e => .error e
  | .ok (l, r) => .ok (plainCells l ++ t.cells ++ plainCells r)

/-! ### equality -/

/-- `CHText.__eq__(CHText)`: same number of chunks and pairwise equal chunks -/
def eqText (a b : Text) : Bool :=
  a.chunks.length == b.chunks.length && (a.chunks.zip b.chunks).all (fun pq => pq.1 == pq.2)

/-- `CHText.__eq__(str)` -/
def eqStr (t : Text) (s : List Char) : Bool :=
  match t.chunks with
  | [p] => p.col == 0 && p.text == s
  | [] => s.isEmpty
  | _ :: _ :: _ => false

/-- `CHText.__eq__(Chunk)` -/
def eqChunk (t : Text) (c : Chunk) : Bool :=
  match t.chunks with
  | [] => c.text.isEmpty
  | [p] => p == c
  | _ :: _ :: _ => false

/-- `Chunk.__eq__(str)` -/
def Chunk.eqStr (c : Chunk) (s : List Char) : Bool := c.col == 0 && c.text == s

/-! ### chunk versions of the operations -/

/-- `Chunk.__getitem__(int)`: `self.clone(self.text[index])` -/
def Chunk.getIndex (c : Chunk) (i : Int) : Except Err Chunk :=
  match pyIndex c.text i with
  | .ok ch => .ok ⟨c.col, [ch]⟩
  | .error e => .error e

/-- `Chunk.__getitem__(slice)` -/
def Chunk.getSlice (c : Chunk) (i j : Option Int) : Chunk := ⟨c.col, pySlice c.text i j⟩

/-- `Chunk.fixed_len` -/
def Chunk.fixedLen (c : Chunk) (n : Int) : Text :=
  let diff : Int := n - c.text.length
  if diff > 0 then construct [.chunk c, .str (spaces diff.toNat)]
  else if diff < 0 then construct [.chunk ⟨c.col, pySlice c.text none (some n)⟩]
  else construct [.chunk c]

/-! ### the chunk-list helpers (`CHText.make`, `_merge_chunks`, `calc_chunks_len`,
`resize_chunks_list`): "for internal use" class methods that `ak/ppobj.py` builds table cells with -/

/-- `calc_chunks_len` -/
def calcChunksLen : List Chunk → Nat
  | [] => 0
  | c :: cs => c.text.length + calcChunksLen cs

/-- the loop of `_merge_chunks`: `cur` is `cur_chunk`; a chunk of the same colour is added to it
(`add_chunks_same_type` keeps the prefix and suffix of `cur`), another colour closes it -/
def mergeGo (cur : Chunk) : List Chunk → List Chunk
  | [] => [cur]
  | c :: cs => if cur.col = c.col then mergeGo ⟨cur.col, cur.text ++ c.text⟩ cs else cur :: mergeGo c cs

/-- `any(c.has_same_type(next_c) for c, next_c in zip(l[:-1], l[1:]))` -/
def needMerge : List Chunk → Bool
  | c :: d :: rest => c.col = d.col || needMerge (d :: rest)
  | _ => false

/-- `_merge_chunks`: the argument itself when no neighbours have the same colour -/
def mergeChunks (cs : List Chunk) : List Chunk :=
  if needMerge cs then
    match cs with
    | [] => []          -- `chunks_list[0]` of an empty list: unreachable, `needMerge [] = false`
    | c :: rest => mergeGo c rest
  else cs

/-- `CHText.make`: merges neighbours of one colour, keeps empty chunks -/
def Text.make (cs : List Chunk) : Text :=
  let m := mergeChunks cs
  ⟨calcChunksLen m, m⟩

/-- the `for item in chunks` loop of `resize_chunks_list` (`none` = the early `return result`) -/
def resizeLoop : List Chunk → Nat → List Chunk
  | [], rem => [⟨0, spaces rem⟩]
  | item :: rest, rem =>
    if rem = 0 then []
    else if item.text.length ≤ rem then item :: resizeLoop rest (rem - item.text.length)
    else ⟨item.col, item.text.take rem⟩ :: resizeLoop rest 0

/-- `resize_chunks_list(chunks, new_len)` for `new_len ≥ 0` (a negative one fails the `assert`) -/
def resizeChunks (cs : List Chunk) (n : Int) : Except Err (List Chunk) :=
  if n < 0 then .error .assertion
  else
    let len := calcChunksLen cs
    if (len : Int) = n then .ok cs
    else if (len : Int) < n then .ok (cs ++ [⟨0, spaces (n - len).toNat⟩])
    else .ok (resizeLoop cs n.toNat)

/-! ### iteration -/

/-- the sequence-iteration protocol (`iter(obj)` of a class with `__getitem__` and no `__iter__`):
`obj[0]`, `obj[1]`, … until `IndexError`. `fuel` bounds the loop (proved sufficient). -/
def iterLoop {α} (get : Nat → Except Err α) : Nat → Nat → Except Err (List α)
  | 0, _ => .error .outOfFuel
  | fuel + 1, k =>
    match get k with
    | .error .indexError => .ok []
    | .error e => .error e
    | .ok x =>
      match iterLoop get fuel (k + 1) with
      | .ok xs => .ok (x :: xs)
      | .error e => .error e

/-- `list(text)`: one-character texts -/
def Text.iter (t : Text) : Except Err (List Text) :=
  iterLoop (fun k => t.getIndex (k : Int)) (t.cells.length + 1) 0

/-- `list(chunk)`: one-character chunks -/
def Chunk.iter (c : Chunk) : Except Err (List Chunk) :=
  iterLoop (fun k => c.getIndex (k : Int)) (c.text.length + 1) 0

/-! ### operation trees -/

inductive Expr where
  | str (s : List Char)
  | chunk (col : Colour) (s : List Char)            -- `ColorFmt(col)(s)`
  | list (tuple : Bool) (items : List Expr)          -- `[...]` / `(...)`
  | mk (args : List Expr)                            -- `CHText(*args)`
  | add (a b : Expr)                                 -- `a + b`
  | iadd (a b : Expr)                                -- `x = a; x += b; x`
  | join (sep : Expr) (tuple : Bool) (items : List Expr)   -- `sep.join([...])`
  | idx (a : Expr) (i : Int)                         -- `a[i]`
  | slice (a : Expr) (i j : Option Int)              -- `a[i:j]`
  | fixedLen (a : Expr) (n : Int)                    -- `a.fixed_len(n)`
  | iter (a : Expr)                                  -- `list(a)`
  | joinIt (sep a : Expr)                            -- `sep.join(a)`: the text / chunk `a` is the iterable
  deriving Repr

def liftErr {α} : Except Err α → Except Fail α
  | .ok a => .ok a
  | .error e => .error (.py e)

/-- `a + b` by operand types (`__add__`, then `__radd__` of the right operand) -/
def pyAdd : Part → Part → Except Fail Part
  | .text t, o => .ok (.text (t.add o))
  | .chunk c, o => .ok (.text (construct [.chunk c, o]))
  | .str s, .chunk c => .ok (.text (radd (.chunk c) (.str s)))
  | .str s, .text t => .ok (.text (radd (.text t) (.str s)))
  | .list tp ps, .chunk c => .ok (.text (radd (.chunk c) (.list tp ps)))
  | .list tp ps, .text t => .ok (.text (radd (.text t) (.list tp ps)))
  | _, _ => .error .unmodelled

/-- `a += b` by operand types (`str` has no `__iadd__`: falls back to `+`) -/
def pyIAdd : Part → Part → Except Fail Part
  | .text t, o => .ok (.text (iadd t o))
  | .chunk c, o => .ok (.text (construct [.chunk c, o]))
  | .str s, .chunk c => .ok (.text (radd (.chunk c) (.str s)))
  | .str s, .text t => .ok (.text (radd (.text t) (.str s)))
  | _, _ => .error .unmodelled

/-- the items a `for` loop over the value sees (texts and chunks only) -/
def iterItems : Part → Except Fail (List Part)
  | .text t => liftErr (t.iter.map fun ts => ts.map Part.text)
  | .chunk c => liftErr (c.iter.map fun cs => cs.map Part.chunk)
  | _ => .error .unmodelled

mutual
def eval : Expr → Except Fail Part
  | .str s => .ok (.str s)
  | .chunk col s => .ok (.chunk ⟨col, s⟩)
  | .list tp es => do
    let ps ← evalList es
    .ok (.list tp ps)
  | .mk es => do
    let ps ← evalList es
    .ok (.text (construct ps))
  | .add a b => do
    let x ← eval a
    let y ← eval b
    pyAdd x y
  | .iadd a b => do
    let x ← eval a
    let y ← eval b
    pyIAdd x y
  | .join sep _ es => do
    let s ← eval sep
    let ps ← evalList es
    match s with
    | .text t => .ok (.text (t.join ps))
    | .chunk c => .ok (.text ((construct [.chunk c]).join ps))
    | _ => .error .unmodelled
  | .idx a i => do
    let x ← eval a
    match x with
    | .text t => liftErr ((t.getIndex i).map Part.text)
    | .chunk c => liftErr ((c.getIndex i).map Part.chunk)
    | _ => .error .unmodelled
  | .slice a i j => do
    let x ← eval a
    match x with
    | .text t => .ok (.text (t.getSlice i j))
    | .chunk c => .ok (.chunk (c.getSlice i j))
    | _ => .error .unmodelled
  | .fixedLen a n => do
    let x ← eval a
    match x with
    | .text t => .ok (.text (t.fixedLen n))
    | .chunk c => .ok (.text (c.fixedLen n))
    | _ => .error .unmodelled
  | .iter a => do
    let x ← eval a
    match x with
    | .text t => liftErr (t.iter.map fun ts => Part.list false (ts.map Part.text))
    | .chunk c => liftErr (c.iter.map fun cs => Part.list false (cs.map Part.chunk))
    | _ => .error .unmodelled
  | .joinIt sep a => do
    let s ← eval sep
    let x ← eval a
    let items ← iterItems x
    match s with
    | .text t => .ok (.text (t.join items))
    | .chunk c => .ok (.text ((construct [.chunk c]).join items))
    | _ => .error .unmodelled
def evalList : List Expr → Except Fail (List Part)
  | [] => .ok []
  | e :: es => do
    let p ← eval e
    let ps ← evalList es
    .ok (p :: ps)
end

/-- `a == b` by operand types (`Chunk.__eq__(CHText)` is `NotImplemented`, Python then asks the
text) -/
def pyEq : Part → Part → Except Fail Bool
  | .text a, .text b => .ok (eqText a b)
  | .text a, .str s => .ok (eqStr a s)
  | .str s, .text a => .ok (eqStr a s)
  | .text a, .chunk c => .ok (eqChunk a c)
  | .chunk c, .text a => .ok (eqChunk a c)
  | .chunk c, .chunk d => .ok (c == d)
  | .chunk c, .str s => .ok (c.eqStr s)
  | .str s, .chunk c => .ok (c.eqStr s)
  | _, _ => .error .unmodelled

/-- `format(a, spec)` seen on the screen -/
def pyFormat (a : Part) (spec : List Char) : Except Fail Cells :=
  match a with
  | .text t => t.format spec
  | .chunk c => (construct [.chunk c]).format spec
  | _ => .error .unmodelled

end CHText
