import AkVerif.Model.GhistTags
import AkVerif.Gen.GhistRefs
/-!
Where the refs of a repository come from: `GitRepo.iter_refs` reads them from the git directory —
`_iter_refs_files` (one file per "loose" ref below `.git/refs`) and `_iter_packed_refs` (the text file
`.git/packed-refs`: a comment line, then one line `<hexsha> <ref name>` per ref, followed by a line `^<hexsha>` with the
tagged commit when the ref is an annotated tag).  `ProjectRepo.make_buildtags_map` / `make_branch_refs_map` turn what
`iter_refs` yields into the tags of the commits and the heads of the branches.

Text is ASCII; the file is cut into lines at `\n` (`for line in refs_file`).
The literal pieces of `_iter_packed_refs` (comment / peeled markers, the words a comment line has to contain, the length
of a peeled line) are read from the source by the translator (`Gen.GhistRefs`).
-/
namespace Ghist
open Ak

/-- `str.isspace` on ASCII: what `str.strip()` removes and `str.split(None)` splits at -/
def isWs (c : Char) : Bool :=
  c = ' ' || (9 ≤ c.toNat && c.toNat ≤ 13) || (28 ≤ c.toNat && c.toNat ≤ 31)

def dropWs : List Char → List Char
  | [] => []
  | c :: cs => if isWs c then dropWs cs else c :: cs

/-- `line.strip()` -/
def strip (s : List Char) : List Char := (dropWs (dropWs s).reverse).reverse

def takeWord : List Char → List Char
  | [] => []
  | c :: cs => if isWs c then [] else c :: takeWord cs

def dropWord : List Char → List Char
  | [] => []
  | c :: cs => if isWs c then c :: cs else dropWord cs

/-- `a, b = line.split(None, 1)` of a stripped line: the first word and what follows the blanks after it; `none` when
there is one word only (the unpacking raises ValueError) -/
def splitTwo (s : List Char) : Option (List Char × List Char) :=
  let r := dropWs (dropWord s)
  if r.isEmpty then none else some (takeWord s, r)

/-- the lines of a text file (cut at `\n`; the piece after the last `\n` is a line too, possibly empty) -/
def splitNl : List Char → List (List Char)
  | [] => [[]]
  | c :: cs =>
    if c = '\n' then [] :: splitNl cs
    else match splitNl cs with
      | [] => [[c]]
      | l :: ls => (c :: l) :: ls

/-- what a generator has yielded so far, followed by what the rest of the loop yields -/
def consAcc {α} (acc : Option α) (r : Except Err (List α)) : Except Err (List α) :=
  match r with
  | .error e => .error e
  | .ok l => .ok (acc.toList ++ l)

/-- the loop of `GitRepo._iter_packed_refs` over the lines of the file; `acc` = the pending record
(`accum_ref_name, accum_hexsha`): a record is yielded when the next ref line is read — a `^` line may still change its
hexsha — and after the last line.  Result: the (ref name, hexsha) pairs in the order they are yielded. -/
def packedLoop (prefixes : List (List Char)) :
    List (List Char) → Option (List Char × List Char) → Except Err (List (List Char × List Char))
  | [], acc => .ok acc.toList
  | l :: ls, acc =>
    match strip l with
    | [] => packedLoop prefixes ls acc
    | c :: rest =>
      if c = Gen.GhistRefs.commentChar then
        if Gen.GhistRefs.headerWords.all (fun w => occursIn w (c :: rest)) then packedLoop prefixes ls acc
        else .error .typeError
      else if c = Gen.GhistRefs.peeledChar then
        if (c :: rest).length ≠ Gen.GhistRefs.peeledLineLen then .error .typeError
        else packedLoop prefixes ls (acc.map fun a => (a.1, rest))
      else
        match splitTwo (c :: rest) with
        | none => .error .valueError
        | some (sha, name) =>
          consAcc acc (packedLoop prefixes ls
            (if prefixes.any (fun p => p.isPrefixOf name) then some (name, sha) else none))

/-- the refs of a git directory -/
structure RefStore where
  /-- the text of `.git/packed-refs`; `none`: there is no such file (`OSError`, logged, nothing yielded) -/
  packed : Option (List Char)
  /-- the files below `.git/refs`: (full ref name = path relative to `.git`, the hexsha written in the file) -/
  loose : List (List Char × List Char)

def packedRefs (st : RefStore) (prefixes : List (List Char)) : Except Err (List (List Char × List Char)) :=
  match st.packed with
  | none => .ok []
  | some text => packedLoop prefixes (splitNl text) none

/-- `GitRepo.iter_refs(prefix)` (one prefix ending in `/`, as `ProjectRepo` calls it): the loose refs below the prefix
without hexsha, then the packed ones that have no file of their own -/
def iterRefs (st : RefStore) (pre : List Char) : Except Err (List (List Char × Option (List Char))) :=
  if !("refs/".toList).isPrefixOf pre then .error .assertion
  else
    let fs := (st.loose.filter fun r => pre.isPrefixOf r.1).map (·.1)
    match packedRefs st [pre] with
    | .error e => .error e
    | .ok pk => .ok (fs.map (fun n => (n, none)) ++ (pk.filter fun r => !fs.contains r.1).map fun r => (r.1, some r.2))

/-- `get_ref_commit(ref_name).hexsha` : what the file of the ref says -/
def looseSha (st : RefStore) (name : List Char) : Except Err (List Char) :=
  match st.loose.find? (fun r => r.1 = name) with
  | some r => .ok r.2
  | none => .error .keyError

/-- `if hexsha is None: hexsha = self.repo.get_ref_commit(ref_name).hexsha` for every yielded ref -/
def resolveAll (st : RefStore) : List (List Char × Option (List Char)) → Except Err (List (List Char × List Char))
  | [] => .ok []
  | (n, some s) :: rs =>
    match resolveAll st rs with
    | .error e => .error e
    | .ok l => .ok ((n, s) :: l)
  | (n, none) :: rs =>
    match looseSha st n, resolveAll st rs with
    | .ok s, .ok l => .ok ((n, s) :: l)
    | .error e, _ => .error e
    | _, .error e => .error e

/-- the refs below a prefix with the hexsha of their commits, as `make_buildtags_map` / `make_branch_refs_map` see them -/
def refsBelow (st : RefStore) (pre : List Char) : Except Err (List (List Char × List Char)) :=
  match iterRefs st pre with
  | .error e => .error e
  | .ok l => resolveAll st l

def tagsPrefix : List Char := "refs/tags/".toList
def remotesPrefix : List Char := "refs/remotes/".toList

/-- the names of the tags that point at the commit with the given hexsha (`builds_map[hexsha]` before the names are
parsed: `ref_name[len("refs/tags/"):]`) -/
def tagNamesAt (tagRefs : List (List Char × List Char)) (sha : List Char) : List (List Char) :=
  (tagRefs.filter fun r => r.2 = sha).map fun r => r.1.drop tagsPrefix.length

/-- `branches_refs_map[ref_name]` (a dict: the last entry of a name counts) and `repo.commit(hexsha)`: the id of the
head commit of the branch `origin/…`; KeyError when the storage has no such ref or no such commit -/
def headOf (shas : List (List Char)) (branchRefs : List (List Char × List Char)) (name : List Char) : Except Err Nat :=
  match branchRefs.reverse.find? (fun r => r.1 = remotesPrefix ++ name) with
  | none => .error .keyError
  | some r =>
    let i := shas.idxOf r.2
    if i < shas.length then .ok i else .error .keyError

def headsOf (shas : List (List Char)) (branchRefs : List (List Char × List Char)) :
    List (List Char × Nat) → Except Err (List (List Char × Nat))
  | [] => .ok []
  | (n, _) :: rs =>
    match headOf shas branchRefs n, headsOf shas branchRefs rs with
    | .ok i, .ok l => .ok ((n, i) :: l)
    | .error e, _ => .error e
    | _, .error e => .error e

/-- the commits with the tags the storage gives them (what the request says about tags is ignored) -/
def withStoredTags {π} (tagRefs : List (List Char × List Char)) :
    List (RawCommit π) → List (List Char) → List (RawCommit π)
  | c :: cs, s :: ss => { c with tagNames := tagNamesAt tagRefs s } :: withStoredTags tagRefs cs ss
  | cs, [] => cs.map fun c => { c with tagNames := [] }
  | [], _ => []

/-- the history as `ProjectRepo` reads it from the git directory: the remote lists the names of its branches (`refs`,
GitPython), their heads and the tags of the commits come from `iter_refs` -/
def storedHist {π} (st : RefStore) (shas : List (List Char)) (remote : List Char) (raw : List (RawCommit π))
    (refs : List (List Char × Nat)) : Except Err (List (RawCommit π) × List (List Char × Nat)) :=
  match refsBelow st tagsPrefix with
  | .error e => .error e
  | .ok tagRefs =>
    match refsBelow st (remotesPrefix ++ remote ++ ['/']) with
    | .error e => .error e
    | .ok brRefs =>
      match headsOf shas brRefs refs with
      | .error e => .error e
      | .ok rs => .ok (withStoredTags tagRefs raw shas, rs)

end Ghist
