import AkVerif.Model.Common
import AkVerif.Model.CHText
import AkVerif.Gen.C12
/-!
Model of the table printer of `/repo/ak/ppobj.py` (C12, and the rendering half of C13).

Only the *visible text* is modelled (colours are C08–C10's business): a chunk is the text of a
`CHText.Chunk` of C08's model (all plain: the table is printed with `no_color=True`), a cell is a list
of chunks, a line is a `List Char`.

* `Val`            — a cell value: `None`, `bool`, `int`, `float` (its `str` and exact ratio are data
                     supplied by the harness), `str`; `Val.text` = `str(value)`, `Val.pyEq` = `==`.
* `resizeChunks`   — `CHText.resize_chunks_list` (`ak/color.py`): the loop is C08's `CHText.resizeLoop`.
* `fitToWidth`     — `FieldType.fit_to_width`.
* `dfltCell`, `enumCell`, `enumLen` — `FieldType.make_desired_cell_ch_chunks`,
                     `PPEnumFieldType._make_text_cache_for_val` / `_make_len_cache_for_val`
                     (text and length are computed separately in the code, and so they are here).
* `detectWidths`   — `ReprStructure.detect_actual_columns_widths` (incl. the early `break`).
* `mkTableLines`, `applyLimits` — break lines and record limits of `_PPTableImpl.gen_ch_lines`.
* `render`         — the whole of `gen_ch_lines`: border, header, titles, border, body, border,
                     footer; returns the lines (with their kind) and the new format state
                     (negotiated widths, `any_lines_skipped`).
-/
namespace Table
open Ak

/-! ## values -/

inductive Val where
  | none
  | bool (b : Bool)
  | int (i : Int)
  | float (txt : List Char) (num : Int) (den : Nat)
  | str (s : List Char)
  deriving DecidableEq, Repr, Inhabited

inductive Align where
  | left | center | right
  deriving DecidableEq, Repr

def natToDec (n : Nat) : List Char := Nat.toDigits 10 n

def intToDec : Int → List Char
  | .ofNat n => natToDec n
  | .negSucc n => '-' :: natToDec (n + 1)

/-- `str(value)` -/
def Val.text : Val → List Char
  | .none => "None".toList
  | .bool true => "True".toList
  | .bool false => "False".toList
  | .int i => intToDec i
  | .float t _ _ => t
  | .str s => s

/-- numeric values as exact fractions (`bool` is a number in Python) -/
def Val.num? : Val → Option (Int × Nat)
  | .bool b => some (if b then 1 else 0, 1)
  | .int i => some (i, 1)
  | .float _ n d => some (n, d)
  | _ => Option.none

/-- Python's `==` between two cell values (finite numbers compare by value across types) -/
def Val.pyEq (a b : Val) : Bool :=
  match a, b with
  | .none, .none => true
  | .str s, .str t => s == t
  | a, b =>
    match a.num?, b.num? with
    | some (n1, d1), some (n2, d2) => n1 * (d2 : Int) == n2 * (d1 : Int)
    | _, _ => false

/-- `==` of two Python lists of values -/
def listPyEq : List Val → List Val → Bool
  | [], [] => true
  | a :: as, b :: bs => a.pyEq b && listPyEq as bs
  | _, _ => false

/-- alignment chosen by `FieldType.make_desired_cell_ch_chunks`: keywords and numbers to the right -/
def Val.align : Val → Align
  | .str _ => .left
  | _ => .right

/-! ## Python string helpers (`str.strip`, `str.split`) -/

def isSpace (c : Char) : Bool := Gen.C12.spaceCodes.contains c.toNat

def lstrip (s : List Char) : List Char := s.dropWhile isSpace
def rstrip (s : List Char) : List Char := (s.reverse.dropWhile isSpace).reverse
def strip (s : List Char) : List Char := rstrip (lstrip s)

/-- `s.split(sep)` for a one-character separator; `cur` is the piece being collected (reversed) -/
def splitAux (sep : Char) : List Char → List Char → List (List Char)
  | cur, [] => [cur.reverse]
  | cur, c :: cs => if c = sep then cur.reverse :: splitAux sep [] cs else splitAux sep (c :: cur) cs

def splitOn (sep : Char) (s : List Char) : List (List Char) := splitAux sep [] s

/-! ## chunks

The chunks are those of the `CHText` model (`Model/CHText.lean`, C08); a table printed with
`no_color=True` has only plain chunks (colour `0`). `resize_chunks_list` is C08's `resizeLoop`;
`resizeChunks` below is C08's `CHText.resizeChunks` for a natural new length
(`Table.resizeChunks_eq_chtext`). -/

abbrev Chunks := List CHText.Chunk

/-- a chunk of plain text (`cp.text(...)` of a no-colour palette, `Chunk.make_plain`) -/
def plain (s : List Char) : CHText.Chunk := ⟨0, s⟩

/-- `plain_text()` of a chunk list -/
def textOf (cs : Chunks) : List Char := cs.flatMap (·.text)

def blanks (n : Nat) : List Char := CHText.spaces n

/-- `CHText.resize_chunks_list(chunks, new_len)` for `new_len ≥ 0` -/
def resizeChunks (cs : Chunks) (n : Nat) : Chunks :=
  let len := CHText.calcChunksLen cs
  if len = n then cs
  else if len < n then cs ++ [plain (blanks (n - len))]
  else CHText.resizeLoop cs n

/-- `FieldType.fit_to_width(ch_chunks, width, align, cp)` -/
def fitToWidth (cs : Chunks) (w : Nat) (a : Align) : Chunks :=
  let len := CHText.calcChunksLen cs
  if len = w then cs
  else if len < w then
    let fill := w - len
    match a with
    | .center => [plain (blanks (fill / 2))] ++ cs ++ [plain (blanks (fill - fill / 2))]
    | .left => cs ++ [plain (blanks fill)]
    | .right => plain (blanks fill) :: cs
  else
    let dots := min Gen.C12.dotsMax w
    resizeChunks cs (w - dots) ++ [plain (List.replicate dots Gen.C12.dotChar)]

/-- visible text of a cell fitted to a width -/
def fitText (cell : Chunks × Align) (w : Nat) : List Char := textOf (fitToWidth cell.1 w cell.2)

/-! ## field types, fields, columns -/

/-- `PPEnumFieldType`: `enum_values` in dict order. The `MISSING` sentinel, if it was given, is
not in `keys` but in `sentinel`: the length of its `str()` (data) and the name given for it. -/
structure EnumType where
  keys : List (Val × List Char)
  sentinel : Option (Nat × List Char)
  deriving DecidableEq, Repr

/-- `self.enum_missing_value[0]` -/
def EnumType.missingName (e : EnumType) : List Char :=
  match e.sentinel with
  | some (_, n) => n
  | Option.none => Gen.C12.enumMissingName

def EnumType.sentinelLen (e : EnumType) : Option Nat := e.sentinel.map (·.1)

/-- a user-written `FieldType` subclass (the documented extension point), of the shape the harness
builds: own width bounds, a fixed alignment (centre included), free-text format modifiers (all but
the `banned` ones are accepted), cell text = `tag + str(value)`, followed by `~modifier` if any -/
structure CustomType where
  minW : Nat
  maxW : Nat
  align : Align
  tag : List Char
  banned : List (List Char)
  deriving DecidableEq, Repr

inductive FType where
  | dflt
  | enum (e : EnumType)
  | custom (c : CustomType)
  deriving DecidableEq, Repr

/-- `field_type.min_width` (`FieldType.__init__` default unless the type says otherwise) -/
def FType.minW : FType → Nat
  | .custom c => c.minW
  | _ => Gen.C12.dfltMinWidth

/-- `field_type.max_width` -/
def FType.maxW : FType → Nat
  | .custom c => c.maxW
  | _ => Gen.C12.dfltMaxWidth

/-- desired text of a cell of a custom type -/
def customText (c : CustomType) (m : Option (List Char)) (v : Val) : List Char :=
  c.tag ++ v.text ++ (match m with | some x => '~' :: x | Option.none => [])

/-- `RecordField` of a tuple record: `value_path = [(False, pos)]` -/
structure Field where
  name : List Char
  ftype : FType
  pos : Nat
  titleLines : List Val
  /-- the value path is an attribute name (a field made from a column description of a table built
  without `fields`: `getattr(record, name)`), not a position -/
  attr : Bool
  deriving DecidableEq, Repr

/-- `ReprColumn` -/
structure Col where
  field : Field
  modifier : Option (List Char)
  breakBy : Bool
  minW : Nat
  maxW : Nat
  width : Option Nat
  deriving DecidableEq, Repr

abbrev Record := List Val

inductive EMod where
  | full | val | name
  deriving DecidableEq, Repr

/-- the keys of `_FMT_MODIFIERS` plus `None` (= `full`) -/
def enumMod? : Option (List Char) → Option EMod
  | Option.none => some .full
  | some m =>
    if m = Gen.C12.enumModFull then some .full
    else if m = Gen.C12.enumModVal then some .val
    else if m = Gen.C12.enumModName then some .name
    else Option.none

/-- `ftype._verify_fmt_modifier(fmt_modifier)` in the `ReprColumn` constructor -/
def verifyModifier (ft : FType) (m : Option (List Char)) : Except Err Unit :=
  match ft with
  | .dflt => if m = Option.none then .ok () else .error .valueError
  | .enum _ => match enumMod? m with
    | some _ => .ok ()
    | Option.none => .error .valueError
  | .custom c => match m with
    | some x => if c.banned.contains x then .error .valueError else .ok ()
    | Option.none => .ok ()

/-- `FieldType.make_desired_cell_ch_chunks(value, None, cp)` -/
def dfltCell (v : Val) : Chunks × Align := ([plain v.text], v.align)

def maxOfList : List Nat → Option Nat
  | [] => Option.none
  | l :: ls => some (ls.foldl max l)

/-- `self.max_val_len` -/
def maxValLen (e : EnumType) : Nat :=
  let lens := (e.keys.filterMap fun kv => if kv.1 = Val.none then Option.none else some kv.1.text.length)
    ++ e.sentinelLen.toList
  match maxOfList lens with
  | some m => m
  | Option.none => Gen.C12.enumDfltValLen

/-- `self.enum_values[value]` (dict lookup = first key equal in Python's sense) -/
def enumLookup (e : EnumType) (v : Val) : Option (List Char) :=
  match e.keys.find? (fun kv => kv.1.pyEq v) with
  | some kv => some kv.2
  | Option.none => Option.none

/-- name and `val_len` of a value; `none` is the special case "value `None` that is not a key" -/
def enumParts (e : EnumType) (v : Val) : Option (List Char × Nat) :=
  match enumLookup e v with
  | some name => some (name, maxValLen e)
  | Option.none =>
    if v = Val.none then Option.none
    else some (e.missingName, max (maxValLen e) v.text.length)

/-- `_make_text_cache_for_val` -/
def enumCell (e : EnumType) (m : EMod) (v : Val) : Chunks × Align :=
  match enumParts e v with
  | Option.none => dfltCell v
  | some (name, valLen) =>
    match m with
    | .val => dfltCell v
    | .name => ([plain name], v.align)
    | .full =>
      let pad := valLen - v.text.length
      ((if pad > 0 then [plain (blanks pad)] else []) ++ [plain v.text, plain [' '], plain name], .left)

/-- `_make_len_cache_for_val`: computed without building the text -/
def enumLen (e : EnumType) (m : EMod) (v : Val) : Nat :=
  match enumParts e v with
  | Option.none => (Val.none).text.length
  | some (name, valLen) =>
    match m with
    | .val => valLen
    | .name => name.length
    | .full => valLen + 1 + name.length

/-- desired text and alignment of a cell (`make_desired_cell_ch_chunks` of the column's type) -/
def cellOf (ft : FType) (m : Option (List Char)) (v : Val) : Except Err (Chunks × Align) :=
  match ft with
  | .dflt => if m = Option.none then .ok (dfltCell v) else .error .valueError
  | .enum e => match enumMod? m with
    | some em => .ok (enumCell e em v)
    | Option.none => .error .valueError
  | .custom c => .ok ([plain (customText c m v)], c.align)

/-- `get_cell_text_len` of the column's type -/
def cellLen (ft : FType) (m : Option (List Char)) (v : Val) : Except Err Nat :=
  match ft with
  | .dflt => .ok v.text.length
  | .enum e => match enumMod? m with
    | some em => .ok (enumLen e em v)
    | Option.none => .error .valueError
  | .custom c => .ok (customText c m v).length

/-- `RecordField.fetch_value(record)` for a tuple record -/
def fetch (f : Field) (r : Record) : Except Err Val :=
  if f.attr then .error .attributeError   -- records are tuples: they have no such attribute
  else match r[f.pos]? with
  | some v => .ok v
  | Option.none => .error .indexError

/-- `_DefaultTitleFieldType.make_desired_cell_ch_chunks(item, None, ...)` -/
def titleCell (item : Val) : Chunks × Align :=
  match item with
  | .str s => ([plain s], .left)
  | v => dfltCell v

/-- `RecordField.get_title_cell_text_len`: `max(len(str(l)) for l in title_lines)` -/
def titleLen (f : Field) : Except Err Nat :=
  match maxOfList (f.titleLines.map fun l => l.text.length) with
  | some m => .ok m
  | Option.none => .error .valueError

/-! ## column widths -/

def initWidths : List Col → Except Err (List (Col × Nat))
  | [] => .ok []
  | c :: cs => do
    let t ← titleLen c.field
    let rest ← initWidths cs
    .ok ((c, min c.maxW (max c.minW t)) :: rest)

/-- one pass of `for col in self.columns:` for one record -/
def updWidths (r : Record) : List (Col × Nat) → Except Err (List (Col × Nat))
  | [] => .ok []
  | (c, w) :: cs => do
    let w' ← (if w < c.maxW then do
        let v ← fetch c.field r
        let l ← cellLen c.field.ftype c.modifier v
        .ok (max w (min c.maxW l))
      else .ok w)
    let rest ← updWidths r cs
    .ok ((c, w') :: rest)

def allMax (ws : List (Col × Nat)) : Bool := ws.all fun cw => cw.2 == cw.1.maxW

def detectLoop : List (Col × Nat) → List Record → Except Err (List (Col × Nat))
  | ws, [] => .ok ws
  | ws, r :: rs => do
    let ws' ← updWidths r ws
    if allMax ws' then .ok ws' else detectLoop ws' rs

/-- `detect_actual_columns_widths(body_records)` -/
def detectWidths (cols : List Col) (body : List Record) : Except Err (List (Col × Nat)) := do
  let ws ← initWidths cols
  detectLoop ws body

/-! ## body lines: records, break lines, limits -/

inductive TLine where
  | row (r : Record)
  | brk
  | skipped
  deriving DecidableEq, Repr

def TLine.isRec : TLine → Bool
  | .row _ => true
  | _ => false

def TLine.row? : TLine → Option Record
  | .row r => some r
  | _ => Option.none

def fetchAll (fs : List Field) (r : Record) : Except Err (List Val) :=
  match fs with
  | [] => .ok []
  | f :: rest => do
    let v ← fetch f r
    let vs ← fetchAll rest r
    .ok (v :: vs)

/-- the first loop of `gen_ch_lines`: a break line before every record whose break-by values
differ from the previous record's -/
def mkTableLines (bfs : List Field) : Option (List Val) → List Record → Except Err (List TLine)
  | _, [] => .ok []
  | prev, r :: rs => do
    let cur ← fetchAll bfs r
    let rest ← mkTableLines bfs (some cur) rs
    match prev with
    | some p => if listPyEq p cur then .ok (.row r :: rest) else .ok (.brk :: .row r :: rest)
    | Option.none => .ok (.row r :: rest)

/-- `lines[:n] if n else []` -/
def pyFirst {α} (l : List α) (n : Int) : List α :=
  if n = 0 then [] else if n > 0 then l.take n.toNat else l.take (l.length - n.natAbs)

/-- `lines[-n:] if n else []` -/
def pyLast {α} (l : List α) (n : Int) : List α :=
  if n = 0 then [] else if n > 0 then l.drop (l.length - n.toNat) else l.drop n.natAbs

/-- record limits: the visible lines and `n_skipped` -/
def applyLimits (limF limL : Option Int) (tl : List TLine) (nrec : Nat) : List TLine × Int :=
  match limF, limL with
  | some nf, some nl =>
    if (tl.length : Int) > nf + nl + 1 then
      let first := pyFirst tl nf
      let last := pyLast tl nl
      (first ++ [TLine.skipped] ++ last, (nrec : Int) - ((first ++ last).countP TLine.isRec : Nat))
    else (tl, 0)
  | _, _ => (tl, 0)

/-! ## the table -/

/-- `PPTableFormat` (`fields` = `repr_structure.record_structure.fields`) -/
structure Fmt where
  fields : List Field
  cols : List Col
  limF : Option Int
  limL : Option Int
  anySkipped : Option Bool
  deriving DecidableEq, Repr

/-- what `_PPTableImpl` keeps -/
structure Tbl where
  records : List Record
  header : Option (List Char)
  footer : List Char
  fmt : Fmt
  deriving DecidableEq, Repr

inductive Kind where
  | border | header | title | record | brk | skipped | footer
  deriving DecidableEq, Repr

structure Line where
  kind : Kind
  text : List Char
  deriving DecidableEq, Repr

def sep : Char := Gen.C12.sepChar

/-- `"".join("+" + "-"*col.width for col in columns) + '+'` -/
def borderText : List Nat → List Char
  | [] => [Gen.C12.cornerChar]
  | w :: ws => Gen.C12.cornerChar :: (List.replicate w Gen.C12.dashChar ++ borderText ws)

/-- `_make_table_line`: `|cell|cell|…|` -/
def joinCells : List (List Char) → List Char
  | [] => [sep]
  | c :: cs => sep :: (c ++ joinCells cs)

def tableWidth (ws : List Nat) : Nat := ws.sum + ws.length + 1

/-- `|` + text fitted to the inner width + `|` (header, skipped-records line) -/
def framed (cs : Chunks) (tw : Nat) : List Char :=
  sep :: (fitText (cs, .left) (tw - 2) ++ [sep])

/-- cells of one record -/
def recordCells (r : Record) : List (Col × Nat) → Except Err (List (List Char))
  | [] => .ok []
  | (c, w) :: cs => do
    let v ← fetch c.field r
    let cell ← cellOf c.field.ftype c.modifier v
    let rest ← recordCells r cs
    .ok (fitText cell w :: rest)

/-- `col.field.title_lines[i] if i < len(col.field.title_lines) else ""` -/
def titleItem (f : Field) (i : Nat) : Val :=
  match f.titleLines[i]? with
  | some v => v
  | Option.none => Val.str []

/-- cells of the `i`-th title line -/
def titleCells (i : Nat) : List (Col × Nat) → List (List Char)
  | [] => []
  | (c, w) :: cs => fitText (titleCell (titleItem c.field i)) w :: titleCells i cs

def bodyLine (ws : List (Col × Nat)) (tw : Nat) (nSkipped : Int) : TLine → Except Err Line
  | .row r => do
    let cells ← recordCells r ws
    .ok ⟨.record, joinCells cells⟩
  | .brk => .ok ⟨.brk, sep :: (blanks (tw - 2) ++ [sep])⟩
  | .skipped =>
    .ok ⟨.skipped, framed [plain Gen.C12.skippedPrefix, plain (intToDec nSkipped ++ Gen.C12.skippedSuffix)] tw⟩

def bodyLines (ws : List (Col × Nat)) (tw : Nat) (nSkipped : Int) : List TLine → Except Err (List Line)
  | [] => .ok []
  | t :: ts => do
    let l ← bodyLine ws tw nSkipped t
    let rest ← bodyLines ws tw nSkipped ts
    .ok (l :: rest)

/-- widths to print with: the finalised ones, or a negotiation over the visible records -/
def finalWidths (cols : List Col) (visible : List Record) : Except Err (List (Col × Nat)) :=
  if cols.all (fun c => c.width.isSome) then
    cols.mapM fun c => match c.width with
      | some w => .ok (c, w)
      | Option.none => .error .assertion
  else detectWidths cols visible

def setWidths (ws : List (Col × Nat)) : List Col := ws.map fun cw => { cw.1 with width := some cw.2 }

def breakFields (cols : List Col) : List Field := (cols.filter (·.breakBy)).map (·.field)

def borderLine (ws : List (Col × Nat)) : Line := ⟨.border, borderText (ws.map (·.2))⟩

/-- `if self.header:` -/
def headerLinesOf (h : Option (List Char)) (tw : Nat) : List Line :=
  match h with
  | some h => if h.isEmpty then [] else [⟨.header, framed [plain h] tw⟩]
  | Option.none => []

/-- `max(len(col.field.title_lines) for col in self.columns)` -/
def titleCount (ws : List (Col × Nat)) : Except Err Nat :=
  match maxOfList (ws.map fun cw => cw.1.field.titleLines.length) with
  | some n => .ok n
  | Option.none => .error .valueError

def titleLinesOf (ws : List (Col × Nat)) (n : Nat) : List Line :=
  (List.range n).map fun i => ⟨.title, joinCells (titleCells i ws)⟩

/-- `if self.footer:` -/
def footerLinesOf (f : List Char) (tw : Nat) : List Line :=
  if f.isEmpty then [] else [⟨.footer, fitText ([plain f], .left) tw⟩]

/-- the state after printing: negotiated widths, `any_lines_skipped = n_skipped > 0` -/
def printed (t : Tbl) (ws : List (Col × Nat)) (nSkipped : Int) : Tbl :=
  { t with fmt := { t.fmt with cols := setWidths ws, anySkipped := some (decide (nSkipped > 0)) } }

/-- `_PPTableImpl.gen_ch_lines`, all lines; the new state carries the negotiated widths and
`any_lines_skipped`. A table without columns fails the `assert width >= 0` of `fit_to_width`. -/
def render (t : Tbl) : Except Err (Tbl × List Line) := do
  let tls ← mkTableLines (breakFields t.fmt.cols) Option.none t.records
  let vn := applyLimits t.fmt.limF t.fmt.limL tls t.records.length
  let ws ← finalWidths t.fmt.cols (vn.1.filterMap TLine.row?)
  if ws.isEmpty then .error .assertion else
  let tw := tableWidth (ws.map (·.2))
  let nTitle ← titleCount ws
  let body ← bodyLines ws tw vn.2 vn.1
  .ok (printed t ws vn.2,
       [borderLine ws] ++ headerLinesOf t.header tw ++ titleLinesOf ws nTitle ++ [borderLine ws] ++ body
         ++ [borderLine ws] ++ footerLinesOf t.footer tw)

/-- Several line iterators (`iter(table.ch_text())`) over several tables, advanced in an
interleaved way. A line generator does all its work on the table (limits, widths, the flag) when it
is advanced for the first time and then only hands out the lines, so what matters is the order in
which the iterators are started: `order` lists iterator numbers, `iters[i]` is the table of
iterator `i`; the result pairs every started iterator with its lines. -/
def startIters (tables : List Tbl) (iters : List Nat) :
    List Nat → List (Nat × List Line) → Except Err (List (Nat × List Line))
  | [], acc => .ok acc
  | i :: rest, acc =>
    match iters[i]? with
    | Option.none => .error .indexError
    | some ti =>
      match tables[ti]? with
      | Option.none => .error .indexError
      | some t =>
        match render t with
        | .error e => .error e
        | .ok (t', ls) => startIters (tables.set ti t') iters rest (acc ++ [(i, ls)])

/-- what can happen between the steps of interleaved printing: an iterator is advanced for the first
time (`start i`), or the caller changes what a table shows — `table.fmt.set_limits((a, b))` on the
live format object (the skipped-lines flag and the negotiated widths are forgotten: the format gets fresh
columns; a print that is being consumed keeps the columns — and the lines — it started with), `table.records.append(r)`, `table.records[i] = r`, `table.records.reverse()` on the caller-owned list
(the table reads the live list whenever a print starts) -/
inductive Ev where
  | start (i : Nat)
  | setLimits (ti : Nat) (a b : Option Int)
  | append (ti : Nat) (r : Record)
  | replace (ti : Nat) (i : Nat) (r : Record)     -- `table.records[i] = r`
  | reverse (ti : Nat)                             -- `table.records.reverse()`
  deriving Repr

/-- `startIters` with changes of the tables in between: every iterator yields the lines of its table
as the table is when the iterator is started; what happens later does not reach it -/
def runEvents (tables : List Tbl) (iters : List Nat) :
    List Ev → List (Nat × List Line) → Except Err (List (Nat × List Line))
  | [], acc => .ok acc
  | .start i :: rest, acc =>
    match iters[i]? with
    | Option.none => .error .indexError
    | some ti =>
      match tables[ti]? with
      | Option.none => .error .indexError
      | some t =>
        match render t with
        | .error e => .error e
        | .ok (t', ls) => runEvents (tables.set ti t') iters rest (acc ++ [(i, ls)])
  | .setLimits ti a b :: rest, acc =>
    match tables[ti]? with
    | Option.none => .error .indexError
    | some t =>
      runEvents (tables.set ti { t with fmt := { t.fmt with
          cols := t.fmt.cols.map fun c => { c with width := Option.none },
          limF := a, limL := b, anySkipped := Option.none } })
        iters rest acc
  | .append ti r :: rest, acc =>
    match tables[ti]? with
    | Option.none => .error .indexError
    | some t => runEvents (tables.set ti { t with records := t.records ++ [r] }) iters rest acc
  | .replace ti i r :: rest, acc =>
    match tables[ti]? with
    | Option.none => .error .indexError
    | some t =>
      if i < t.records.length then runEvents (tables.set ti { t with records := t.records.set i r }) iters rest acc
      else .error .indexError
  | .reverse ti :: rest, acc =>
    match tables[ti]? with
    | Option.none => .error .indexError
    | some t => runEvents (tables.set ti { t with records := t.records.reverse }) iters rest acc

end Table
