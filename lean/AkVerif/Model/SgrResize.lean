import AkVerif.Model.Sgr
/-!
Chunk lists that pass through a public list helper before they are rendered (C09).

`CHText.resize_chunks_list(chunks, new_len)` returns a chunk list (truncated, or with one more chunk
of blanks made by `Chunk.make_plain`); the caller turns it into a string with `CHText.make(res)`,
`CHText(*res)` / `CHText(res)` or by printing the chunks one after the other. The chunks come from
formatters directly or from an existing object (`CHText(*parts).chunks`).

* `resizeChunks` — `CHText.resize_chunks_list`: the three branches of the code (equal: the list itself;
                   shorter: the list plus **one plain chunk** of blanks; longer: `truncGo`).
* `truncGo`      — the truncation loop (`remaining_len`); a chunk cut in the middle is a `clone` (same
                   prefix and suffix); when the loop runs to the end a plain chunk of
                   `remaining_len` blanks is appended (empty when the cut was in the last chunk).
* `Source` / `Sink` — where the list comes from and how the returned list becomes a `str`.
* `fitCells` (specification) — what should be on the screen: the cells cut to the new length, or
                   followed by blanks **in default state** (nobody asked for a colour there).
-/
namespace Sgr

/-- `CHText.Chunk.make_plain(" " * n)` -/
def padChunk (n : Nat) : Chunk := ⟨[], List.replicate n ' ', []⟩

/-- `CHText.calc_chunks_len` -/
def chunksLen : List Chunk → Nat
  | [] => 0
  | c :: cs => c.text.length + chunksLen cs

/-- the loop of `resize_chunks_list` (`rem` = `remaining_len`) and the statement after it -/
def truncGo : Nat → List Chunk → List Chunk
  | rem, [] => [padChunk rem]
  | rem, c :: cs =>
    if rem = 0 then []
    else if c.text.length ≤ rem then c :: truncGo (rem - c.text.length) cs
    else { c with text := c.text.take rem } :: truncGo 0 cs

/-- `CHText.resize_chunks_list(chunks, new_len)` (`new_len >= 0`) -/
def resizeChunks (cs : List Chunk) (n : Nat) : List Chunk :=
  if chunksLen cs = n then cs
  else if chunksLen cs < n then cs ++ [padChunk (n - chunksLen cs)]
  else truncGo n cs

/-- the helper applied once per length, left to right -/
def resizeAll : List Chunk → List Nat → List Chunk
  | cs, [] => cs
  | cs, n :: ns => resizeAll (resizeChunks cs n) ns

/-- where the chunk list comes from: the formatters' results themselves, or the `chunks` of
`CHText(*parts)` -/
inductive Source where
  | fmts
  | obj
  deriving Repr, DecidableEq

def srcChunks : Source → List Chunk → List Chunk
  | .fmts, cs => cs
  | .obj, cs => buildChunks cs

/-- how the returned list becomes a string: `str(CHText.make(res))`, `str(CHText(*res))`
(= `str(CHText(res))`), `"".join(str(c) for c in res)` -/
inductive Sink where
  | make
  | ctor
  | join
  deriving Repr, DecidableEq

def sinkChunks : Sink → List Chunk → List Chunk
  | .make, cs => mergeChunks cs
  | .ctor, cs => buildChunks cs
  | .join, cs => cs

/-- the chunks that are finally printed -/
def listChunks (src : Source) (lens : List Nat) (sink : Sink) (cs : List Chunk) : List Chunk :=
  sinkChunks sink (resizeAll (srcChunks src cs) lens)

def listStr (src : Source) (lens : List Nat) (sink : Sink) (cs : List Chunk) : List Char :=
  render (listChunks src lens sink cs)

/-! specification side -/

/-- the screen cut to `n` cells, or filled up with blanks in default state -/
def fitCells (cells : List (Char × Attr)) (n : Nat) : List (Char × Attr) :=
  cells.take n ++ List.replicate (n - cells.length) (' ', Attr.default)

def fitAll : List (Char × Attr) → List Nat → List (Char × Attr)
  | cells, [] => cells
  | cells, n :: ns => fitAll (fitCells cells n) ns

end Sgr
