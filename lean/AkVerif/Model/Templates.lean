import AkVerif.Model.Common
import AkVerif.Gen.C05
/-!
Model of the production templates of `/repo/ak/llparser.py` and of the default clean-up (C05).

* `Val`                — what can sit in `TElement.value` (and a `TElement` itself): `None`, token text,
                         a Python `list`, a Python `dict` (association list in insertion order), a
                         `TElement(name, _is_leaf, value)`.
* `mkListOpts`, `ListOpts.genProds`, `listSigs`, `tailSigs`
                       — `ListProds.__init__`, `complete_init` (the two signature dictionaries with the
                         positions found by `_find_index`) and `gen_productions`.
* `mkMapOpts`, `MapOpts.genProds`, `mapSigs`, `kvTailSigs`, `kvSig` — the same for `MapProds`.
* `seqSymbols`, `prodRules`, `getTokens`
                       — `ProdSequence.complete_init` / `LLParser._make_prod_rules_list`: expansion of the
                         `AnyTokenExcept` pseudo-item wherever it stands (iteration order of the terminal set = data).
* `seqGenProds`, `processSeq`, `flattenSeq`
                       — `ProdSequence.gen_productions`, `LLParser._process_seq_telement` and its use by the
                         parse loop (innermost node first).
* `mkSquashData`       — `StdCleanuper._make_squash_data` (on the factorised `prods_map`, given as data).
* `cleanup` (+ `cleanSeq`, `transformList`, `parseTail`, `transformMap`, `parseKvTail`, `parseKvPair`)
                       — `StdCleanuper._cleanup` (with the repair 04414b3: the elements of a flattened sequence are cleaned
                         in place) and the `transform_t_elem` methods. The Python code mutates the
                         element in place and returns the "must not be squashed" flag; the model returns the
                         new `(name, _is_leaf, value)` and the flag. `t_elem.value[pos]` followed by a recursive
                         call is `itemAt`/`tailAt`/`kvAt`/`kvTailAt` (walk to position `pos`, `IndexError`
                         behind the end), so that the whole family is structurally recursive on the tree.

* `conforms`, `wellTyped` — executable hypotheses of the theorems (the driver evaluates them on every real raw tree).

Names are `List Char`. Dict keys: `None` and `str` compare by value, a `TElement` key compares by identity
(two different nodes of a tree are never equal), `list`/`dict` keys are unhashable (`TypeError`).
-/
namespace Templates
open Ak

abbrev Name := List Char

inductive Val where
  | none
  | str (s : List Char)
  | list (xs : List Val)
  | dict (kvs : List (Val × Val))
  | elem (name : Name) (leaf : Bool) (value : Val)
  deriving Repr, Inhabited

def Val.isNone : Val → Bool
  | .none => true
  | _ => false

/-- `(name, _is_leaf, value)` of a `TElement` -/
abbrev El := Name × Bool × Val

def El.toVal (e : El) : Val := .elem e.1 e.2.1 e.2.2

/-- `x.value if x.is_leaf() else x` -/
def entry (e : El) : Val := if e.2.1 then e.2.2 else e.toVal

/-! ### Python dictionaries with keys that have decidable equality (signatures, names) -/

def lookup {α β} [DecidableEq α] : List (α × β) → α → Option β
  | [], _ => none
  | (k, v) :: rest, a => if k = a then some v else lookup rest a

/-- `d[k] = v`: an existing key keeps its position (and the old key object), a new one goes last -/
def dictSet {α β} [DecidableEq α] : List (α × β) → α → β → List (α × β)
  | [], k, v => [(k, v)]
  | (k', v') :: rest, k, v => if k' = k then (k', v) :: rest else (k', v') :: dictSet rest k v

/-- `dict(pairs)` -/
def dictOf {α β} [DecidableEq α] (ps : List (α × β)) : List (α × β) :=
  ps.foldl (fun d p => dictSet d p.1 p.2) []

/-- `_find_index`: `list.index`, `None` when absent -/
def indexOf? : List Name → Name → Option Nat
  | [], _ => none
  | x :: xs, a => if x = a then some 0 else (indexOf? xs a).map (· + 1)

/-- `tuple(s for s in prod_symbols if s is not None)` -/
def purge : List (Option Name) → List Name
  | [] => []
  | none :: r => purge r
  | some a :: r => a :: purge r

abbrev Sig := Name × List Name
abbrev Pos := Option Nat × Option Nat
abbrev Prods := List (Name × List (List Name))

/-! ### ListProds -/

structure ListArgs where
  openBr : Option Name
  item : Name
  delim : Option Name
  closeBr : Option Name
  afd : Option Bool
  optional : Option Bool

structure ListOpts where
  openBr : Option Name
  item : Name
  delim : Option Name
  closeBr : Option Name
  afd : Bool
  optional : Bool
  result : Name
  deriving Repr, DecidableEq

/-- `ListProds.__init__` followed by `complete_init(result_symbol, …)` (the fields it stores) -/
def mkListOpts (a : ListArgs) (result : Name) : Except Err ListOpts :=
  if a.openBr.isNone != a.closeBr.isNone then .error .assertion else
  let afd := match a.afd with
    | none => a.delim.isSome && a.openBr.isSome
    | some b => b
  if afd && !(a.delim.isSome && a.openBr.isSome) then .error .assertion else
  match a.optional with
  | some b =>
    if a.openBr.isNone then .error .assertion
    else .ok ⟨a.openBr, a.item, a.delim, a.closeBr, afd, b, result⟩
  | none => .ok ⟨a.openBr, a.item, a.delim, a.closeBr, afd, false, result⟩

def tailSuffix : Name := Gen.C05.tailSuffix

def ListOpts.tailSym (o : ListOpts) : Name :=
  if o.openBr.isSome || o.delim.isSome then o.result ++ tailSuffix else o.result

def ListOpts.listProdsRaw (o : ListOpts) : List (List (Option Name)) :=
  let a := [o.openBr, o.closeBr]
  let b := [o.openBr, some o.item, some o.tailSym, o.closeBr]
  let base := if o.openBr.isSome then [a, b] else [b, a]
  if o.optional then base ++ [[]] else base

def ListOpts.tailProdsRaw (o : ListOpts) : List (List (Option Name)) :=
  if o.tailSym = o.result then o.listProdsRaw
  else if o.afd then [[o.delim, some o.item, some o.tailSym], [o.delim], []]
  else [[o.delim, some o.item, some o.tailSym], []]

/-- `_make_expected_signature` -/
def ListOpts.mkSig (o : ListOpts) (sym : Name) (prod : List (Option Name)) : Sig × Pos :=
  let p := purge prod
  ((sym, p), (indexOf? p o.item, indexOf? p o.tailSym))

def ListOpts.listSigs (o : ListOpts) : List (Sig × Pos) :=
  dictOf (o.listProdsRaw.map (o.mkSig o.result))

def ListOpts.tailSigs (o : ListOpts) : List (Sig × Pos) :=
  dictOf (o.tailProdsRaw.map (o.mkSig o.tailSym))

/-- `gen_productions` -/
def ListOpts.genProds (o : ListOpts) : Prods :=
  (o.result, o.listSigs.map (·.1.2)) ::
    (if o.tailSym ≠ o.result then [(o.tailSym, o.tailSigs.map (·.1.2))] else [])

/-! ### MapProds -/

structure MapArgs where
  openBr : Option Name
  key : Name
  assign : Option Name
  val : Name
  delim : Option Name
  closeBr : Option Name
  optional : Option Bool
  afd : Option Bool

structure MapOpts where
  openBr : Option Name
  key : Name
  assign : Name
  val : Name
  delim : Name
  closeBr : Option Name
  optional : Bool
  afd : Bool
  result : Name
  deriving Repr, DecidableEq

def mkMapOpts (a : MapArgs) (result : Name) : Except Err MapOpts :=
  if a.openBr.isNone != a.closeBr.isNone then .error .assertion else
  let afd := match a.afd with
    | none => Gen.C05.mapAfdDefault
    | some b => b
  match a.assign, a.delim with
  | some asg, some dl =>
    match a.optional with
    | some b =>
      if a.openBr.isNone then .error .assertion
      else .ok ⟨a.openBr, a.key, asg, a.val, dl, a.closeBr, b, afd, result⟩
    | none => .ok ⟨a.openBr, a.key, asg, a.val, dl, a.closeBr, false, afd, result⟩
  | _, _ => .error .assertion

def kvPairSuffix : Name := Gen.C05.kvPairSuffix
def kvTailSuffix : Name := Gen.C05.kvTailSuffix

def MapOpts.kvPairSym (o : MapOpts) : Name := o.result ++ kvPairSuffix
def MapOpts.kvTailSym (o : MapOpts) : Name := o.result ++ kvTailSuffix

def MapOpts.mapProdsRaw (o : MapOpts) : List (List (Option Name)) :=
  let base := [[o.openBr, o.closeBr], [o.openBr, some o.kvPairSym, some o.kvTailSym, o.closeBr]]
  if o.optional then base ++ [[]] else base

def MapOpts.kvTailProdsRaw (o : MapOpts) : List (List (Option Name)) :=
  if o.afd then [[some o.delim, some o.kvPairSym, some o.kvTailSym], [some o.delim], []]
  else [[some o.delim, some o.kvPairSym, some o.kvTailSym], []]

def MapOpts.mkSig (o : MapOpts) (sym : Name) (prod : List (Option Name)) : Sig × Pos :=
  let p := purge prod
  ((sym, p), (indexOf? p o.kvPairSym, indexOf? p o.kvTailSym))

def MapOpts.mapSigs (o : MapOpts) : List (Sig × Pos) :=
  dictOf (o.mapProdsRaw.map (o.mkSig o.result))

def MapOpts.kvTailSigs (o : MapOpts) : List (Sig × Pos) :=
  dictOf (o.kvTailProdsRaw.map (o.mkSig o.kvTailSym))

def MapOpts.kvSig (o : MapOpts) : Sig := (o.kvPairSym, [o.key, o.assign, o.val])

def MapOpts.genProds (o : MapOpts) : Prods :=
  [(o.result, o.mapSigs.map (·.1.2)), (o.kvTailSym, o.kvTailSigs.map (·.1.2)),
   (o.kvPairSym, [o.kvSig.2])]

/-! ### ProdSequence -/

def seqElemSuffix : Name := Gen.C05.seqElemSuffix

/-- a symbol argument of `ProdSequence(...)` / an entry of a list of productions: a plain name (a one-symbol
production) or the pseudo-item `AnyTokenExcept(*excluded)` -/
inductive SymArg where
  | sym (s : Name)
  | anyExcept (excluded : List Name)
  deriving Repr

def SymArg.isSpecial : SymArg → Bool
  | .anyExcept _ => true
  | .sym _ => false

/-- `AnyTokenExcept.get_tokens(terminals, …)`: `GrammarError` for an excluded name that is no terminal; the tokens in
the iteration order of `terminals` (a Python set: the order is data) -/
def getTokens (terminals excluded : List Name) : Except Err (List Name) :=
  if excluded.any (fun t => decide (t ∉ terminals)) then .error .grammarError
  else .ok (terminals.filter fun t => decide (t ∉ excluded))

def expandArgs (terminals : List Name) : List SymArg → Except Err (List Name)
  | [] => .ok []
  | .sym s :: rest =>
    match expandArgs terminals rest with
    | .ok r => .ok (s :: r)
    | .error e => .error e
  | .anyExcept ex :: rest =>
    match getTokens terminals ex with
    | .error e => .error e
    | .ok ts =>
      match expandArgs terminals rest with
      | .ok r => .ok (ts ++ r)
      | .error e => .error e

/-- `ProdSequence.complete_init`: `self.symbols` after the replacement of the (at most one) `AnyTokenExcept` item -/
def seqSymbols (terminals : List Name) (args : List SymArg) : Except Err (List Name) :=
  if (args.filter SymArg.isSpecial).length > 1 then .error .grammarError
  else expandArgs terminals args

/-- `ProdSequence.gen_productions` (`symbols` after the expansion of `AnyTokenExcept`) -/
def seqGenProds (result : Name) (symbols : List Name) : Prods :=
  [(result, [[result ++ seqElemSuffix, result], []]),
   (result ++ seqElemSuffix, symbols.map fun s => [s])]

/-- an entry of the list of productions of a symbol: `None`, a tuple, or `AnyTokenExcept(...)` -/
inductive ProdArg where
  | empty
  | tuple (syms : List Name)
  | anyExcept (excluded : List Name)
  deriving Repr

/-- `LLParser._make_prod_rules_list`: the right-hand sides in order (`sort_n` is numbered by the caller); a second
`AnyTokenExcept` is a `GrammarError` -/
def prodRules (terminals : List Name) : List ProdArg → Bool → Except Err (List (List Name))
  | [], _ => .ok []
  | .empty :: rest, seen =>
    match prodRules terminals rest seen with
    | .ok r => .ok ([] :: r)
    | .error e => .error e
  | .tuple p :: rest, seen =>
    match prodRules terminals rest seen with
    | .ok r => .ok (p :: r)
    | .error e => .error e
  | .anyExcept ex :: rest, seen =>
    if seen then .error .grammarError else
    match getTokens terminals ex with
    | .error e => .error e
    | .ok ts =>
      match prodRules terminals rest true with
      | .ok r => .ok (ts.map (fun t => [t]) ++ r)
      | .error e => .error e

/-- `LLParser._process_seq_telement` -/
def processSeq : Val → Except Err Val
  | .elem name _ .none => .ok (.elem name true (.list []))
  | .elem name _ (.list [item, tail]) =>
    match tail with
    | .elem tname _ tv =>
      if tname ≠ name then .error .assertion else
      match tv with
      | .list seq =>
        match item with
        | .elem _ _ (.list [x]) => .ok (.elem name true (.list (x :: seq)))
        | .elem _ _ (.list _) => .error .assertion
        | .elem _ _ _ => .error .typeError
        | _ => .error .assertion
      | _ => .error .attributeError
    | _ => .error .attributeError
  | .elem _ _ (.list _) => .error .assertion
  | .elem _ _ _ => .error .typeError
  | _ => .error .attributeError

/-- what the parse loop does with the nodes of a sequence: each node is processed when it is completed,
i.e. the tail first -/
def flattenSeq : Val → Except Err Val
  | .elem name leaf (.list [item, tail]) => do
    let tail' ← flattenSeq tail
    processSeq (.elem name leaf (.list [item, tail']))
  | t => processSeq t

/-! ### Cleanuper -/

inductive Template where
  | list (o : ListOpts)
  | map (o : MapOpts)
  deriving Repr, DecidableEq

structure Cleanuper where
  templates : List (Name × Template)
  choice : List Name
  keep : List Name
  squash : List Name
  deriving Repr, DecidableEq

/-- `StdCleanuper._make_squash_data`: returns `(squash_symbols, choice_symbols)` -/
def mkSquashData (prodsMap : Prods) (suffix : List Name) : List Name × List Name :=
  prodsMap.foldl (fun (acc : List Name × List Name) (p : Name × List (List Name)) =>
    if p.1 ∈ suffix then acc else
    let nNull := (p.2.filter fun r => r.length = 0).length
    let nOne := (p.2.filter fun r => r.length = 1).length
    if nNull + nOne < p.2.length then acc else
    (acc.1 ++ [p.1], if nOne > 1 then acc.2 ++ [p.1] else acc.2)) ([], [])

/-- `StdCleanuper.make` -/
def mkCleanuper (templates : List (Name × Template)) (prodsMap : Prods) (suffix : List Name)
    (keep : List Name) (start : Name) : Cleanuper :=
  let sd := mkSquashData prodsMap suffix
  { templates := templates, choice := sd.2, keep := keep ++ [start], squash := sd.1 }

def childNames : List Val → Except Err (List Name)
  | [] => .ok []
  | .elem n _ _ :: xs =>
    match childNames xs with
    | .ok ns => .ok (n :: ns)
    | .error e => .error e
  | _ :: _ => .error .attributeError

/-- `TElement.signature()` -/
def signature (name : Name) (leaf : Bool) (v : Val) : Except Err Sig :=
  if leaf then .ok (name, []) else
  match v with
  | .list xs =>
    match childNames xs with
    | .ok ns => .ok (name, ns)
    | .error e => .error e
  | _ => .error .typeError

def lastIsNone : List Val → Bool
  | [] => false
  | [x] => x.isNone
  | _ :: y :: r => lastIsNone (y :: r)

/-- the two special cases at the end of `ListProds.transform_t_elem` -/
def adjust (o : ListOpts) (vs : List Val) : List Val :=
  if lastIsNone vs && o.afd then vs.dropLast
  else match o.openBr, vs with
    | none, [.none] => []
    | _, _ => vs

def hashable : Val → Bool
  | .list _ => false
  | .dict _ => false
  | _ => true

def keyEq : Val → Val → Bool
  | .none, .none => true
  | .str a, .str b => a = b
  | _, _ => false

def pySet : List (Val × Val) → Val → Val → List (Val × Val)
  | [], k, v => [(k, v)]
  | (k', v') :: rest, k, v => if keyEq k' k then (k', v) :: rest else (k', v') :: pySet rest k v

/-- `dict(kv_pairs)` -/
def pyDict (ps : List (Val × Val)) : Except Err (List (Val × Val)) :=
  if ps.all (fun p => hashable p.1) then .ok (ps.foldl (fun d p => pySet d p.1 p.2) [])
  else .error .typeError

/-- the part of `_cleanup` after the children have been cleaned -/
def squashStep (cl : Cleanuper) (name : Name) (fc fch : Bool) (rs : List (El × Bool)) :
    Except Err (El × Bool) :=
  match rs with
  | [] => .ok ((name, false, .none), fch)
  | r :: rest =>
    let children := Val.list ((r :: rest).map (·.1.toVal))
    if name ∈ cl.squash then
      match rest with
      | [] =>
        let keepParent := fch || decide (name ∈ cl.keep)
        let keepChild := r.2 || decide (r.1.1 ∈ cl.keep)
        if keepParent && keepChild then .ok ((name, false, children), true)
        else if keepChild || fc then .ok (r.1, r.2)
        else .ok ((name, r.1.2.1, r.1.2.2), keepParent)
      | _ :: _ => .error .assertion
    else .ok ((name, false, children), fch)

/-- `signature = t_elem.signature(); assert signature in sigs; … = sigs[signature]` -/
def positions (sigs : List (Sig × Pos)) (name : Name) (leaf : Bool) (v : Val) : Except Err Pos :=
  match signature name leaf v with
  | .error e => .error e
  | .ok sig =>
    match lookup sigs sig with
    | none => .error .assertion
    | some p => .ok p

def listPositions (o : ListOpts) := positions o.listSigs
def tailPositions (o : ListOpts) := positions o.tailSigs
def mapPositions (o : MapOpts) := positions o.mapSigs
def kvTailPositions (o : MapOpts) := positions o.kvTailSigs

mutual

/-- `StdCleanuper._cleanup(t_elem, for_container, for_choice)` -/
def cleanup (cl : Cleanuper) : Val → Bool → Bool → Except Err (El × Bool)
  | .elem name leaf v, fc, fch =>
    match lookup cl.templates name with
    | some (.list o) => do
      let e ← transformList cl o name leaf v
      pure (e, fch)
    | some (.map o) => do
      let e ← transformMap cl o name leaf v
      pure (e, fch)
    | none =>
      if leaf then
        match v with
        | .list xs => do
          -- a flattened sequence: the matched elements are cleaned in place
          let xs' ← cleanSeq cl xs
          pure ((name, leaf, .list xs'), fch)
        | _ => .ok ((name, leaf, v), fch)
      else
      match v with
      | .list xs => do
        let rs ← cleanupAll cl xs (decide (name ∈ cl.choice))
        squashStep cl name fc fch rs
      | _ => .error .typeError
  | _, _, _ => .error .attributeError

/-- `for seq_elem in t_elem.value: if isinstance(seq_elem, TElement): self._cleanup(seq_elem)` -/
def cleanSeq (cl : Cleanuper) : List Val → Except Err (List Val)
  | [] => .ok []
  | .elem n l v :: xs => do
    let r ← cleanup cl (.elem n l v) false false
    let rs ← cleanSeq cl xs
    pure (r.1.toVal :: rs)
  | x :: xs => do
    let rs ← cleanSeq cl xs
    pure (x :: rs)

def cleanupAll (cl : Cleanuper) : List Val → Bool → Except Err (List (El × Bool))
  | [], _ => .ok []
  | x :: xs, fch => do
    let r ← cleanup cl x false fch
    let rs ← cleanupAll cl xs fch
    pure (r :: rs)

/-- `item = value[pos]; cleanuper._cleanup(item, for_container=True)` -/
def itemAt (cl : Cleanuper) : List Val → Nat → Except Err El
  | [], _ => .error .indexError
  | x :: _, 0 => do
    let r ← cleanup cl x true false
    pure r.1
  | _ :: xs, n + 1 => itemAt cl xs n

/-- `self._parse_tail_t_elem(value[pos], …)` -/
def tailAt (cl : Cleanuper) (o : ListOpts) : List Val → Nat → Except Err (List El)
  | [], _ => .error .indexError
  | x :: _, 0 => parseTail cl o x
  | _ :: xs, n + 1 => tailAt cl o xs n

/-- `ListProds._parse_tail_t_elem`: the cleaned items of the tail, in order -/
def parseTail (cl : Cleanuper) (o : ListOpts) : Val → Except Err (List El)
  | .elem name leaf (.list xs) =>
    match tailPositions o name leaf (.list xs) with
    | .error e => .error e
    | .ok (ip, tp) => do
      let a ← match ip with
        | none => pure []
        | some p => do let i ← itemAt cl xs p; pure [i]
      let b ← match tp with
        | none => pure []
        | some p => tailAt cl o xs p
      pure (a ++ b)
  | .elem name leaf v =>
    match tailPositions o name leaf v with
    | .error e => .error e
    | .ok (ip, tp) => if ip.isNone && tp.isNone then .ok [] else .error .typeError
  | _ => .error .attributeError

/-- `ListProds.transform_t_elem` -/
def transformList (cl : Cleanuper) (o : ListOpts) (name : Name) (leaf : Bool) :
    Val → Except Err El
  | .list xs =>
    match listPositions o name leaf (.list xs) with
    | .error e => .error e
    | .ok (ip, tp) => do
      let a ← match ip with
        | none => pure []
        | some p => do let i ← itemAt cl xs p; pure [i]
      let b ← match tp with
        | none => pure []
        | some p => tailAt cl o xs p
      pure (name, true, .list (adjust o ((a ++ b).map entry)))
  | v =>
    match listPositions o name leaf v with
    | .error e => .error e
    | .ok (ip, tp) =>
      if o.optional && v.isNone then .ok (name, leaf, v)
      else if ip.isNone && tp.isNone then .ok (name, true, .list (adjust o []))
      else .error .typeError

/-- `self._parse_kv_pair(value[pos], …)` -/
def kvAt (cl : Cleanuper) (o : MapOpts) : List Val → Nat → Except Err (Val × Val)
  | [], _ => .error .indexError
  | x :: _, 0 => parseKvPair cl o x
  | _ :: xs, n + 1 => kvAt cl o xs n

def kvTailAt (cl : Cleanuper) (o : MapOpts) : List Val → Nat → Except Err (List (Val × Val))
  | [], _ => .error .indexError
  | x :: _, 0 => parseKvTail cl o x
  | _ :: xs, n + 1 => kvTailAt cl o xs n

/-- `MapProds._parse_kv_pair` -/
def parseKvPair (cl : Cleanuper) (o : MapOpts) : Val → Except Err (Val × Val)
  | .elem name leaf (.list xs) =>
    match signature name leaf (.list xs) with
    | .error e => .error e
    | .ok sig =>
      if sig ≠ o.kvSig then .error .assertion else do
      let k ← itemAt cl xs 0
      let w ← itemAt cl xs 2
      pure (entry k, entry w)
  | .elem name leaf v =>
    match signature name leaf v with
    | .error e => .error e
    | .ok sig => if sig ≠ o.kvSig then .error .assertion else .error .typeError
  | _ => .error .attributeError

/-- `MapProds._parse_kv_tail` -/
def parseKvTail (cl : Cleanuper) (o : MapOpts) : Val → Except Err (List (Val × Val))
  | .elem name leaf (.list xs) =>
    match kvTailPositions o name leaf (.list xs) with
    | .error e => .error e
    | .ok (pp, tp) => do
      let a ← match pp with
        | none => pure []
        | some p => do let kv ← kvAt cl o xs p; pure [kv]
      let b ← match tp with
        | none => pure []
        | some p => kvTailAt cl o xs p
      pure (a ++ b)
  | .elem name leaf v =>
    match kvTailPositions o name leaf v with
    | .error e => .error e
    | .ok (pp, tp) => if pp.isNone && tp.isNone then .ok [] else .error .typeError
  | _ => .error .attributeError

/-- `MapProds.transform_t_elem` -/
def transformMap (cl : Cleanuper) (o : MapOpts) (name : Name) (leaf : Bool) :
    Val → Except Err El
  | .list xs =>
    match mapPositions o name leaf (.list xs) with
    | .error e => .error e
    | .ok (pp, tp) => do
      let a ← match pp with
        | none => pure []
        | some p => do let kv ← kvAt cl o xs p; pure [kv]
      let b ← match tp with
        | none => pure []
        | some p => kvTailAt cl o xs p
      let d ← pyDict (a ++ b)
      pure (name, true, .dict d)
  | v =>
    match mapPositions o name leaf v with
    | .error e => .error e
    | .ok (pp, tp) =>
      if o.optional && v.isNone then .ok (name, leaf, v)
      else if pp.isNone && tp.isNone then .ok (name, true, .dict [])
      else .error .typeError

end

/-- `StdCleanuper.cleanup(root)`: the root after the clean-up -/
def cleanupRoot (cl : Cleanuper) (t : Val) : Except Err Val :=
  match cleanup cl t false false with
  | .ok r => .ok r.1.toVal
  | .error e => .error e

/-! ### conformance of a raw tree to a set of productions (executable hypothesis of the theorems) -/

mutual
/-- every node whose symbol has productions in `P` was built by one of them (an empty production gives a
leaf with value `None`); nodes of other symbols are not constrained but their children are -/
def conforms (P : Prods) : Val → Bool
  | .elem name leaf v =>
    match lookup P name with
    | none =>
      (match v with
       | .list xs => conformsAll P xs
       | _ => true)
    | some rules =>
      match leaf, v with
      | true, .none => decide ([] ∈ rules)
      | false, .list xs =>
        !xs.isEmpty &&
        (match childNames xs with
         | .ok ns => decide (ns ∈ rules)
         | .error _ => false) && conformsAll P xs
      | _, _ => false
  | _ => false
def conformsAll (P : Prods) : List Val → Bool
  | [] => true
  | x :: xs => conforms P x && conformsAll P xs
end

mutual
/-- the tree is built from `TElement`s the way the parser builds them: a leaf holds `None`, token text or (flattened
sequence) a list of elements; an inner node holds a non-empty list of elements; a squash symbol (that is not a
template) has exactly one child -/
def wellTyped (cl : Cleanuper) : Val → Bool
  | .elem name leaf v =>
    match leaf, v with
    | true, .none => true
    | true, .str _ => true
    | true, .list xs => wellTypedAll cl xs
    | false, .list xs =>
      !xs.isEmpty && wellTypedAll cl xs &&
        (if name ∈ cl.squash ∧ (lookup cl.templates name).isNone then xs.length == 1 else true)
    | _, _ => false
  | _ => false
def wellTypedAll (cl : Cleanuper) : List Val → Bool
  | [] => true
  | x :: xs => wellTyped cl x && wellTypedAll cl xs
end

end Templates
