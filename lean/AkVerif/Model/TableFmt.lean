import AkVerif.Model.Table
import AkVerif.Model.Proto
/-!
Model of the table *format string* of `/repo/ak/ppobj.py` (C13; its parser is also what C12's
driver uses to build tables, because the real constructor only takes format strings).

* `colToStr`, `fmtToStr`   — `ReprColumn.to_fmt_str`, `ReprStructure._get_fmt_str`,
                              `PPTableFormat._get_fmt_str`.
* `parsePyInt`              — `int(str)` for ASCII input (blanks around, sign, `_` between digits).
* `parseCol`, `parseCols`, `parseVis`, `parseFmt` — `_ColumnsParsedFmt._parse_col_fmt`,
                              `_parse_cols_fmt`, `_PPTableParsedFmt`.
* `applySetter`             — `_PPTableImpl.set_fmt` (clone, `_set_parsed_fmt(parsed, other)`).
* `mkTable`                 — `PPTable(records, fmt=…, fields=[names], fields_types=…,
                              fields_titles=…, header=…, footer=…, limits=…, skip_columns=…)`
                              and the two field-less forms (`col_N` fields from the first record,
                              dummy field of an empty table).
-/
namespace Table
open Ak

/-! ## printing -/

def modStr : Option (List Char) → List Char
  | some m => '/' :: m
  | Option.none => []

def brkStr (b : Bool) : List Char := if b then ['!'] else []

/-- name, `/modifier`, `!` -/
def colHead (c : Col) : List Char := c.field.name ++ modStr c.modifier ++ brkStr c.breakBy

/-- `n`, or `min-max` followed by `(width)` once the width has been negotiated -/
def widthStr (c : Col) : List Char :=
  if c.minW = c.maxW then natToDec c.minW
  else natToDec c.minW ++ '-' :: natToDec c.maxW
    ++ (match c.width with | some w => '(' :: (natToDec w ++ [')']) | Option.none => [])

/-- `ReprColumn.to_fmt_str` -/
def colToStr (c : Col) : List Char := colHead c ++ ':' :: widthStr c

def joinWith (sep : Char) : List (List Char) → List Char
  | [] => []
  | [a] => a
  | a :: b :: rest => a ++ sep :: joinWith sep (b :: rest)

def colsToStr (cols : List Col) : List Char := joinWith ',' (cols.map colToStr)

def limitsToStr (f : Fmt) : List Char :=
  if f.anySkipped = some false then []
  else match f.limF, f.limL with
    | some a, some b => intToDec a ++ ':' :: intToDec b
    | _, _ => ['*']

/-- `while parts and parts[-1] == "": parts.pop()` -/
def popEmpty (parts : List (List Char)) : List (List Char) :=
  (parts.reverse.dropWhile (·.isEmpty)).reverse

/-- `str(table.fmt)` -/
def fmtToStr (f : Fmt) : List Char :=
  joinWith ';' (popEmpty [colsToStr f.cols, limitsToStr f])

/-! ## parsing -/

/-- optional sign of `int(s)` -/
def signSplit : List Char → Bool × List Char
  | '-' :: r => (true, r)
  | '+' :: r => (false, r)
  | r => (false, r)

/-- digits of `int(s)`: groups of ASCII digits separated by single underscores -/
def parseDigits (body : List Char) : Option Nat :=
  let gs := splitOn '_' body
  if gs.all (fun g => !g.isEmpty && g.all Char.isDigit) then some (Nat.ofDigitChars 10 gs.flatten 0)
  else Option.none

/-- `int(s)`; ASCII digits only -/
def parsePyInt (s : List Char) : Option Int :=
  let p := signSplit (strip s)
  match parseDigits p.2 with
  | some n => some (if p.1 then -(n : Int) else (n : Int))
  | Option.none => Option.none

/-- position of the first `<-` -/
def findArrow : List Char → Option Nat
  | [] => Option.none
  | a :: tl =>
    match tl with
    | [] => Option.none
    | b :: _ => if a = '<' ∧ b = '-' then some 0 else (findArrow tl).map (· + 1)

/-- what `_parse_col_fmt` leaves in `min_w`/`max_w`: nothing, minus one twice, or two numbers -/
inductive PWidth where
  | unspec
  | hidden
  | range (a b : Nat)
  deriving DecidableEq, Repr

structure PCol where
  fieldName : List Char
  modifier : Option (List Char)
  breakBy : Bool
  valuePath : Option (List Char)
  width : PWidth
  deriving DecidableEq, Repr

inductive PCols where
  | keep                       -- ""
  | all                        -- "*"
  | explicit (cols : List PCol)
  deriving DecidableEq, Repr

structure PFmt where
  cols : PCols
  vis : Option (Option Int × Option Int)
  deriving DecidableEq, Repr

def endsWith (s : List Char) (c : Char) : Bool := s.getLast? = some c

/-- the numbers of a width description (`"3"`, `"3-10"`); a chunk never contains `-`, so `int`
cannot be negative here — should it be, the model says so instead of guessing -/
def parseWidthNums : List (List Char) → Except Err (List Nat)
  | [] => .ok []
  | w :: ws =>
    match parsePyInt w with
    | Option.none => .error .valueError
    | some (.ofNat n) => do
      let rest ← parseWidthNums ws
      .ok (n :: rest)
    | some (.negSucc _) => .error .outOfFuel

/-- `"3-10(7)"` -> `"3-10"`: the width reported by `to_fmt_str` is informational -/
def cutPrinted (wf : List Char) : List Char :=
  if endsWith wf ')' && wf.contains '(' then strip (wf.takeWhile (· ≠ '(')) else wf

/-- a number or a range -/
def parseRange (wf : List Char) : Except Err PWidth :=
  if (splitOn '-' wf).length > 2 then .error .valueError
  else do
    let ws ← parseWidthNums (splitOn '-' wf)
    match ws with
    | [a, b] => .ok (.range a b)
    | [a] => .ok (.range a a)
    | _ => .error .outOfFuel     -- `split` never returns an empty list

def parseWidth (widthFmt : List Char) : Except Err PWidth :=
  if widthFmt = ['-', '1'] then .ok .hidden
  else if widthFmt.isEmpty then .ok .unspec
  else parseRange (cutPrinted widthFmt)

/-- `name<-path` -> name, path (both stripped) -/
def splitArrow (fn : List Char) : List Char × Option (List Char) :=
  match findArrow fn with
  | some i => (strip (fn.take i), some (strip (fn.drop (i + 2))))
  | Option.none => (fn, Option.none)

/-- trailing `!` -/
def splitBreak (fn : List Char) : List Char × Bool :=
  if endsWith fn '!' then (fn.dropLast, true) else (fn, false)

/-- `name/modifier` -/
def splitModifier (fn : List Char) : List Char × Option (List Char) :=
  if fn.contains '/' then
    let nm := fn.takeWhile (· ≠ '/')
    (nm, some (fn.drop (nm.length + 1)))
  else (fn, Option.none)

/-- the part of `_parse_col_fmt` that reads `name/modifier!<-path` -/
def parseHead (fieldName : List Char) (width : PWidth) : PCol :=
  let a := splitArrow fieldName
  let b := splitBreak a.1
  let m := splitModifier b.1
  { fieldName := m.1, modifier := m.2, breakBy := b.2, valuePath := a.2, width }

/-- `_parse_col_fmt` -/
def parseCol (fmt : List Char) : Except Err PCol :=
  match (splitOn ':' fmt).map strip with
  | [fn] => do
    let width ← parseWidth []
    .ok (parseHead fn width)
  | [fn, wf] => do
    let width ← parseWidth wf
    .ok (parseHead fn width)
  | _ => .error .valueError

def parseColList : List (List Char) → Except Err (List PCol)
  | [] => .ok []
  | s :: ss => do
    let c ← parseCol s
    let rest ← parseColList ss
    .ok (c :: rest)

/-- `_parse_cols_fmt` -/
def parseCols (s : List Char) : Except Err PCols :=
  if s.isEmpty then .ok .keep
  else if s = ['*'] then .ok .all
  else do
    let cs ← parseColList (splitOn ',' s)
    .ok (.explicit cs)

/-- `_parse_vis_lines_fmt` -/
def parseVis (s : List Char) : Except Err (Option (Option Int × Option Int)) :=
  if s.isEmpty then .ok Option.none
  else if s = ['*'] then .ok (some (Option.none, Option.none))
  else
    match (splitOn ':' s).map strip with
    | [a, b] =>
      match parsePyInt a, parsePyInt b with
      | some x, some y => .ok (some (some x, some y))
      | _, _ => .error .valueError
    | _ => .error .valueError

/-- `_PPTableParsedFmt(fmt)` -/
def parseFmt (s : List Char) : Except Err PFmt :=
  match splitOn ';' s with
  | [c] => do let cols ← parseCols c; .ok ⟨cols, Option.none⟩
  | [c, l] => do let cols ← parseCols c; let vis ← parseVis l; .ok ⟨cols, vis⟩
  | [c, l, _] => do let cols ← parseCols c; let vis ← parseVis l; .ok ⟨cols, vis⟩
  | _ => .error .valueError

/-! ## applying a format -/

def dfltCol (f : Field) : Col :=
  ⟨f, Option.none, false, f.ftype.minW, f.ftype.maxW, Option.none⟩

/-- `ReprColumn(field, modifier, break_by, min_w, max_w)` -/
def mkCol (f : Field) (p : PCol) (a b : Option Nat) : Except Err Col := do
  verifyModifier f.ftype p.modifier
  .ok ⟨f, p.modifier, p.breakBy,
       (match a with | some x => x | Option.none => f.ftype.minW),
       (match b with | some x => x | Option.none => f.ftype.maxW), Option.none⟩

def findField (fields : List Field) (name : List Char) : Option Field :=
  fields.find? (·.name = name)

/-- columns named by a format, the setter's way (`ReprStructure._set_parsed_fmt`): an unknown
field is a `ValueError`, hidden (`:-1`) columns are skipped after that test -/
def setterCols (fields : List Field) : List PCol → Except Err (List Col)
  | [] => .ok []
  | p :: ps =>
    match findField fields p.fieldName with
    | Option.none => .error .valueError
    | some f =>
      match p.width with
      | .hidden => setterCols fields ps
      | .unspec => do
        let c ← mkCol f p Option.none Option.none
        let rest ← setterCols fields ps
        .ok (c :: rest)
      | .range a b => do
        let c ← mkCol f p (some a) (some b)
        let rest ← setterCols fields ps
        .ok (c :: rest)

/-- `table.fmt = s` -/
def applySetter (t : Tbl) (s : List Char) : Except Err Tbl := do
  let p ← parseFmt s
  let cur := t.fmt
  let cols ← (match p.cols with
    | .keep => .ok (cur.cols.map fun c => { c with width := Option.none })
    | .all => .ok (cur.fields.map dfltCol)
    | .explicit cs => setterCols cur.fields cs : Except Err (List Col))
  let (limF, limL) := match p.vis with
    | Option.none => (cur.limF, cur.limL)
    | some l => l
  .ok { t with fmt := ⟨cur.fields, cols, limF, limL, Option.none⟩ }

/-! ## the constructor -/

/-- the `fields_titles[name]` argument -/
inductive TitleArg where
  | none
  | str (s : List Char)
  | list (items : List Val)
  deriving DecidableEq, Repr

/-- `RecordField._gen_title_lines` -/
def genTitleLines (title : TitleArg) (name : List Char) : List Val :=
  let items : List Val := match title with
    | .none => [Val.str name]
    | .str s => [Val.str s]
    | .list l => l
  items.flatMap fun it => match it with
    | .str s => (splitOn '\n' s).map fun l => Val.str (strip l)
    | v => [v]

/-- an element of `fields=[…]`: a name (`pos = none`: the field is `record[<index in the list>]`, type and
title come from `fields_types` / `fields_titles`), or a ready `RecordField(name, type, pos, title)` -/
structure FieldSpec where
  name : List Char
  ftype : FType
  title : TitleArg
  pos : Option Nat := Option.none
  deriving DecidableEq, Repr

structure CtorArgs where
  records : List Record
  fields : Option (List FieldSpec)
  fmt : Option (List Char)
  limits : Option (Option Int × Option Int)
  header : Option (List Char)
  footer : Option (List Char)
  skip : Option (List (List Char))
  deriving DecidableEq, Repr

/-- where in the record the field's value is: the object's own position, or the index in `fields` -/
def FieldSpec.posAt (s : FieldSpec) (i : Nat) : Nat :=
  match s.pos with
  | some p => p
  | Option.none => i

def mkFields : Nat → List FieldSpec → List Field
  | _, [] => []
  | pos, s :: ss =>
    ⟨s.name, s.ftype, s.posAt pos, genTitleLines s.title s.name, false⟩
      :: mkFields (pos + 1) ss

def hasDup : List (List Char) → Bool
  | [] => false
  | a :: as => as.contains a || hasDup as

/-- columns named by a format, the constructor's way (`ReprStructure.make`): hidden columns are
filtered out first, an unknown field then makes `ReprColumn(None, …)` fail with `AttributeError` -/
def ctorCols (fields : List Field) : List PCol → Except Err (List Col)
  | [] => .ok []
  | p :: ps =>
    match p.width with
    | .hidden => ctorCols fields ps
    | w =>
      match findField fields p.fieldName with
      | Option.none => .error .attributeError
      | some f => do
        let c ← (match w with
          | .range a b => mkCol f p (some a) (some b)
          | _ => mkCol f p Option.none Option.none)
        let rest ← ctorCols fields ps
        .ok (c :: rest)

/-- one field per distinct name, in order of first appearance; the value is `getattr(record, name)` -/
def attrFields : List (List Char) → List Field
  | [] => []
  | n :: ns => ⟨n, .dflt, 0, [Val.str n], true⟩ :: (attrFields ns).filter (·.name ≠ n)

/-- `"col_1"`, `"col_2"`, … -/
def colNFields : Nat → Nat → List Field
  | _, 0 => []
  | pos, n + 1 =>
    ⟨Gen.C12.colPrefix ++ natToDec (pos + 1), .dflt, pos, [Val.str (Gen.C12.colPrefix ++ natToDec (pos + 1))], false⟩
      :: colNFields (pos + 1) n

/-- `PPTable(records, …)`; `.error .outOfFuel` marks forms of the call the model does not cover
(explicit value paths `name<-path`, numeric field names without `fields`) -/
def mkTable (a : CtorArgs) : Except Err Tbl := do
  let p ← parseFmt (match a.fmt with | some s => s | Option.none => [])
  let (limF, limL) := match p.vis with
    | some l => l
    | Option.none => (Option.none, Option.none)
  let (fields, cols) ← (match a.fields with
    | some specs =>
      if hasDup (specs.map (·.name)) then .error .valueError
      else
        let fields := mkFields 0 specs
        match p.cols with
        | .explicit cs =>
          if cs.any (·.valuePath.isSome) then .error .valueError
          else do
            let cols ← ctorCols fields cs
            .ok (fields, cols)
        | _ => .ok (fields, fields.map dfltCol)
    | Option.none =>
      match p.cols with
      | .explicit cs =>
        -- the fields are those the column descriptions name, each read from the record by its *name*
        -- (value paths proper, and names that look like numbers, are not modelled)
        if cs.any (fun c => c.valuePath.isSome || (parsePyInt c.fieldName).isSome) then .error .outOfFuel
        else do
          let fields := attrFields (cs.map (·.fieldName))
          let cols ← ctorCols fields cs
          .ok (fields, cols)
      | _ =>
        let fields := match a.records with
          | r :: _ => colNFields 0 r.length
          | [] => [⟨Gen.C12.dummyField, .dflt, 0, [Val.str Gen.C12.dummyField], false⟩]
        .ok (fields, fields.map dfltCol) : Except Err (List Field × List Col))
  let (limF, limL) := match a.limits with
    | some l => l
    | Option.none => (limF, limL)
  let cols := match a.skip with
    | some names => cols.filter fun c => !names.contains c.field.name
    | Option.none => cols
  let footer := match a.footer with
    | some f => f
    | Option.none => Gen.C12.footerPrefix ++ natToDec a.records.length ++ Gen.C12.footerSuffix
  .ok ⟨a.records, a.header, footer, ⟨fields, cols, limF, limL, Option.none⟩⟩

/-- `PPTableFormat.clone()`: same fields, columns without their widths, both limits; the
skipped-lines flag starts anew -/
def cloneFmt (f : Fmt) : Fmt :=
  ⟨f.fields, f.cols.map fun c => { c with width := Option.none }, f.limF, f.limL, Option.none⟩

/-- `PPTable(records, fmt_obj=f, limits=…, skip_columns=…, header=…, footer=…)` -/
def mkTableFromFmt (f : Fmt) (records : List Record) (limits : Option (Option Int × Option Int))
    (skip : Option (List (List Char))) (header footer : Option (List Char)) : Tbl :=
  let g := cloneFmt f
  let (limF, limL) := match limits with
    | some l => l
    | Option.none => (g.limF, g.limL)
  let cols := match skip with
    | some names => g.cols.filter fun c => !names.contains c.field.name
    | Option.none => g.cols
  let footer := match footer with
    | some x => x
    | Option.none => Gen.C12.footerPrefix ++ natToDec records.length ++ Gen.C12.footerSuffix
  ⟨records, header, footer, ⟨g.fields, cols, limF, limL, Option.none⟩⟩

/-- `table.remove_columns(names)`: the format gets fresh (un-fitted) columns without those of the named
fields (fix adb5d03: the widths fitted to the old visible records are forgotten); the skipped-lines flag
stays as it is -/
def removeCols (t : Tbl) (names : List (List Char)) : Tbl :=
  { t with fmt := { t.fmt with
      cols := (t.fmt.cols.map fun c => { c with width := Option.none }).filter fun c => !names.contains c.field.name } }

/-- `table.fmt.set_limits((a, b))` on the live format object: both limits are replaced, the
skipped-lines flag (fix 3b63cdc) and the negotiated widths (fix 1d22ea8) are forgotten: the format gets
fresh, un-fitted columns (fix df4a139), a print in progress keeps the columns it started with -/
def setLimits (t : Tbl) (a b : Option Int) : Tbl :=
  { t with fmt := { t.fmt with cols := t.fmt.cols.map fun c => { c with width := Option.none },
                               limF := a, limL := b, anySkipped := Option.none } }

/-- the columns standing at the given places (taken modulo the number of columns), in the order asked for:
a column may be dropped, repeated, moved -/
def pickCols (cols : List Col) (idxs : List Nat) : List Col :=
  idxs.filterMap fun i => cols[i % cols.length]?

/-- A columns-only format string made of the table's OWN column descriptions, as `str(table.fmt)` reports
them now — `str(table.fmt).split(';')[0].split(',')[i]` for each `i` asked for, joined by `,` — either
verbatim (with the `(width)` suffix of a printed ranged column) or `plain` (that suffix left out). -/
def subFmtStr (f : Fmt) (idxs : List Nat) (plain : Bool) : List Char :=
  colsToStr ((pickCols f.cols idxs).map fun c => if plain then { c with width := Option.none } else c)

/-- a column given as an object: `ReprColumn(field, fmt_modifier, break_by, min_width, max_width)` -/
structure ColSpec where
  fieldName : List Char
  modifier : Option (List Char)
  breakBy : Bool
  minW : Nat
  maxW : Nat
  deriving DecidableEq, Repr

/-- `[ReprColumn(record_structure.get_field(name), …) for …]`: an unknown name gives `ReprColumn(None, …)`,
an `AttributeError`; the constructor checks the modifier against the field's type -/
def directCols (fields : List Field) : List ColSpec → Except Err (List Col)
  | [] => .ok []
  | c :: cs =>
    match findField fields c.fieldName with
    | Option.none => .error .attributeError
    | some f => do
      verifyModifier f.ftype c.modifier
      let rest ← directCols fields cs
      .ok (⟨f, c.modifier, c.breakBy, c.minW, c.maxW, Option.none⟩ :: rest)

/-- A table whose format never went through the parser:
`PPTable(records, fmt_obj=PPTableFormat(ReprStructure(record_structure, [ReprColumn…]), first, last),
header=…, footer=…)` with the record structure of `fields=…` -/
def mkTableDirect (a : CtorArgs) (cols : List ColSpec) (lims : Option Int × Option Int) : Except Err Tbl := do
  let t0 ← mkTable { a with fmt := Option.none, limits := Option.none, skip := Option.none }
  let cs ← directCols t0.fmt.fields cols
  .ok (mkTableFromFmt ⟨t0.fmt.fields, cs, lims.1, lims.2, Option.none⟩ a.records Option.none Option.none
    a.header a.footer)

/-! ## wire format of the drivers (not part of the model proper)

`F- | F n (name D|E… title)*`, `R n (m val*)*`, fmt `none|cps`, `L- | L lim lim`, header, footer
`none|cps`, `K- | K n cps*`; values: `n t f i<int> d<num>/<den>/<cps> s<cps>`. -/
namespace Wire
open Ak.Proto

abbrev P := StateT (List String) Option

def tok : P String := fun s => match s with
  | [] => Option.none
  | t :: ts => some (t, ts)

def fail {α} : P α := fun _ => Option.none

def lift {α} (o : Option α) : P α := fun s => o.map (·, s)

def many {α} (p : P α) : Nat → P (List α)
  | 0 => pure []
  | n + 1 => do let a ← p; let as ← many p n; pure (a :: as)

def natTok : P Nat := do let t ← tok; lift t.toNat?

def cpsTok : P (List Char) := do let t ← tok; lift (parseCps t)

def optCps : P (Option (List Char)) := do
  let t ← tok
  if t = "none" then pure Option.none else do let c ← lift (parseCps t); pure (some c)

def parseVal (t : String) : Option Val :=
  if t = "n" then some Val.none
  else if t = "t" then some (Val.bool true)
  else if t = "f" then some (Val.bool false)
  else if t.startsWith "i" then (parseInt (t.drop 1).toString).map Val.int
  else if t.startsWith "s" then (parseCps (t.drop 1).toString).map Val.str
  else if t.startsWith "d" then
    match (t.drop 1).toString.splitOn "/" with
    | [n, d, txt] =>
      match parseInt n, d.toNat?, parseCps txt with
      | some n, some d, some txt => some (Val.float txt n d)
      | _, _, _ => Option.none
    | _ => Option.none
  else Option.none

def valTok : P Val := do let t ← tok; lift (parseVal t)

def ftypeP : P FType := do
  let t ← tok
  if t = "D" then pure .dflt
  else if t = "E" then do
    let n ← natTok
    let keys ← many (do let k ← valTok; let nm ← cpsTok; pure (k, nm)) n
    let s ← tok
    let sentinel ← (if s = "S-" then pure Option.none
      else if s.startsWith "S" then do
        let k ← lift (s.drop 1).toString.toNat?
        let nm ← cpsTok
        pure (some (k, nm))
      else fail : P (Option (Nat × List Char)))
    pure (.enum ⟨keys, sentinel⟩)
  else if t = "C" then do
    let mn ← natTok
    let mx ← natTok
    let al ← tok
    let align ← (if al = "1" then pure Align.left else if al = "2" then pure Align.center
      else if al = "3" then pure Align.right else fail : P Align)
    let tag ← cpsTok
    let nb ← natTok
    let banned ← many cpsTok nb
    pure (.custom ⟨mn, mx, align, tag, banned⟩)
  else fail

def titleP : P TitleArg := do
  let t ← tok
  if t = "TN" then pure .none
  else if t = "TS" then do let s ← cpsTok; pure (.str s)
  else if t = "TL" then do let n ← natTok; let vs ← many valTok n; pure (.list vs)
  else fail

/-- `O<pos>` in front of a field: a `RecordField` object with that value position -/
def fieldP : P FieldSpec := do
  let t ← tok
  let (pos, name) ← (if t.startsWith "O" then do
      let p ← lift (t.drop 1).toString.toNat?
      let n ← cpsTok
      pure (some p, n)
    else do
      let n ← lift (parseCps t)
      pure (Option.none, n) : P (Option Nat × List Char))
  let ft ← ftypeP
  let title ← titleP
  pure ⟨name, ft, title, pos⟩

def limP : P (Option Int) := do
  let t ← tok
  if t = "n" then pure Option.none else do let i ← lift (parseInt t); pure (some i)

/-- records, limits, header, footer, skip_columns -/
structure Rest where
  records : List Record
  limits : Option (Option Int × Option Int)
  header : Option (List Char)
  footer : Option (List Char)
  skip : Option (List (List Char))

/-- `=k` stands for "the very same record object as record `k`" (identity means nothing in the model) -/
def recordsFrom : Nat → List Record → P (List Record)
  | 0, acc => pure acc
  | n + 1, acc => do
    let t ← tok
    if t.startsWith "=" then do
      let k ← lift (t.drop 1).toString.toNat?
      let r ← lift acc[k]?
      recordsFrom n (acc ++ [r])
    else do
      let m ← lift t.toNat?
      let r ← many valTok m
      recordsFrom n (acc ++ [r])

def recordsP : P (List Record) := do
  let r ← tok
  if r ≠ "R" then fail else
  let nr ← natTok
  recordsFrom nr []

def limitsP : P (Option (Option Int × Option Int)) := do
  let l ← tok
  if l = "L-" then pure Option.none
  else if l = "L" then do let a ← limP; let b ← limP; pure (some (a, b))
  else fail

def skipP : P (Option (List (List Char))) := do
  let k ← tok
  if k = "K-" then pure Option.none
  else if k = "K" then do let n ← natTok; let ns ← many cpsTok n; pure (some ns)
  else fail

def specP : P CtorArgs := do
  let f ← tok
  let fields ← (if f = "F-" then pure Option.none
    else if f = "F" then do let n ← natTok; let fs ← many fieldP n; pure (some fs)
    else fail : P (Option (List FieldSpec)))
  let records ← recordsP
  let fmt ← optCps
  let limits ← limitsP
  let header ← optCps
  let footer ← optCps
  let skip ← skipP
  pure ⟨records, fields, fmt, limits, header, footer, skip⟩

def restP : P Rest := do
  let records ← recordsP
  let limits ← limitsP
  let header ← optCps
  let footer ← optCps
  let skip ← skipP
  pure ⟨records, limits, header, footer, skip⟩

def parseRest (toks : List String) : Option Rest :=
  match restP toks with
  | some (a, []) => some a
  | _ => Option.none

def colSpecP : P ColSpec := do
  let name ← cpsTok
  let m ← optCps
  let b ← tok
  let mn ← natTok
  let mx ← natTok
  pure ⟨name, m, b = "1", mn, mx⟩

/-- `Q n (name modifier|none brk min max)* lim lim` -/
def directP : P (List ColSpec × (Option Int × Option Int)) := do
  let q ← tok
  if q ≠ "Q" then fail else
  let n ← natTok
  let cs ← many colSpecP n
  let a ← limP
  let b ← limP
  pure (cs, (a, b))

def parseDirect (toks : List String) : Option (List ColSpec × (Option Int × Option Int)) :=
  match directP toks with
  | some (a, []) => some a
  | _ => Option.none

/-- token groups separated by `@` -/
def splitAt (toks : List String) : List (List String) :=
  toks.foldr (fun t acc => if t = "@" then [] :: acc else
    match acc with
    | g :: gs => (t :: g) :: gs
    | [] => [[t]]) [[]]

def parseSpec (toks : List String) : Option CtorArgs :=
  match specP toks with
  | some (a, []) => some a
  | _ => Option.none

def showLines (ls : List Line) : String :=
  " ".intercalate (toString ls.length :: ls.map fun l => showCps l.text)

end Wire

end Table
