import AkVerif.Model.Common
/-!
Model of `/repo/ak/short_uuid.py` (C20), generic in the alphabet and the length so that the
generated constants (`Gen.C20`) are only plugged in at the property level.

* `digits`      — the `while number:` loop of `_int_to_str` (little-endian digits, no padding);
                  `fuel` bounds the loop, `digits n n` is the real result (proved: fuel `n` suffices).
* `encodeIdx`   — digits followed by the padding `_ALPHABET[0] * (LEN - len(out))`
                  (Python's `str * negative` is `""`, `Nat` subtraction gives the same).
* `value`       — `_str_to_int`: Horner evaluation over the reversed string.
* `decode`      — `uuid_from_short_str`: length test, `KeyError`/`ValueError` → `ValueError`,
                  `uuid.UUID(int=n)` rejects `n ≥ 2^128` with `ValueError`.
* `fromStr`     — `uuid_from_str`; `canon` stands for `uuid.UUID(str)` (trusted library, parameter).
-/
namespace ShortUuid
open Ak

def digits (B : Nat) : Nat → Nat → List Nat
  | 0, _ => []
  | fuel+1, n => if n = 0 then [] else (n % B) :: digits B fuel (n / B)

def encodeIdx (B len n : Nat) : List Nat :=
  let ds := digits B n n
  ds ++ List.replicate (len - ds.length) 0

def lookupAll (al : List Char) : List Nat → Option (List Char)
  | [] => some []
  | d :: ds =>
    match al[d]?, lookupAll al ds with
    | some c, some cs => some (c :: cs)
    | _, _ => none

/-- `_int_to_str`; `none` would be an `IndexError` in `_ALPHABET[digit]` (proved impossible). -/
def encode (al : List Char) (len n : Nat) : Option (List Char) :=
  lookupAll al (encodeIdx al.length len n)

/-- `_INDEX_ALPHABET[char]`: position of the character (the dict built by `enumerate` keeps the
last position of a repeated character; for a duplicate-free alphabet — `C20.alphabet_ok` — it is
the only one). `none` is Python's `KeyError`. -/
def indexOf : List Char → Char → Option Nat
  | [], _ => none
  | a :: as, c => if a = c then some 0 else (indexOf as c).map (· + 1)

def indexAll (al : List Char) : List Char → Option (List Nat)
  | [] => some []
  | c :: cs =>
    match indexOf al c, indexAll al cs with
    | some d, some ds => some (d :: ds)
    | _, _ => none

def value (B : Nat) : List Nat → Nat
  | [] => 0
  | d :: ds => d + B * value B ds

def maxUuid : Nat := 2 ^ 128

def decode (al : List Char) (len : Nat) (s : List Char) : Except Err Nat :=
  if s.length ≠ len then .error .valueError
  else match indexAll al s with
    | none => .error .valueError
    | some ds =>
      let n := value al.length ds
      if n < maxUuid then .ok n else .error .valueError

def fromStr (canon : List Char → Option Nat) (al : List Char) (len : Nat) (s : List Char) :
    Except Err Nat :=
  match canon s with
  | some n => .ok n
  | none => decode al len s

end ShortUuid
