import AkVerif.Model.Common
/-!
Model of the multi-command part of `/repo/ak/cli_tools.py` (C19).

* `parseDecl`    — the command string `"!name:parent1, parent2"` (split at the first `:`, one leading
                   `!`, parents split at `,`, stripped, empty pieces dropped, collected in a set).
* `declare`      — one iteration of the loop in `_init_multicmd_parser`: the three `assert`s, then the
                   new parser is registered in each parent and in every parser that already lists that
                   parent as dependent (`register_dependent` is idempotent since 016eb00).
* `build`        — the whole loop, `assert commands`, choice of the default command.
* `addOption`    — `ArgParser.add_argument` (target `none`: every parser, no propagation) and
                   `get_cmd_parser(p).add_argument` (dependents of `p`, then `p`; one level only).
                   `argparse`'s conflict test on option strings is the only thing that can fail.
* `parseArgs`    — `ArgParser.parse_args`: default command insertion, the top-level parser
                   (`-h`, choice of the sub-parser among the *public* commands), the scan of one
                   sub-parser over its option table, `no_color` post-processing.

`argparse` inside one parser is modelled for the token language the harness generates (exact
option strings, `--opt=value`, words); abbreviations, `-xyz` clusters, `--`, negative numbers are
`Tok.ood` ("out of domain") and make `parseArgs` return `Fail.ood`, never an ordinary answer.
The standard options and the first-argument test come from the source (`Cfg`, filled by `Gen.C19`).
-/
namespace CliGraph
open Ak

abbrev Name := List Char

/-- one entry of `commands=` after parsing -/
structure Decl where
  name : Name
  internal : Bool
  parents : List Name
  deriving DecidableEq, Repr

/-- what `add_argument` creates -/
inductive Kind where
  | flag                                             -- action='store_true'
  | value                                            -- one string value
  | count                                            -- action='count', default 0
  | optChoice (choices : List Name) (dflt : Name)    -- nargs='?', choices, const None
  | help                                             -- argparse's -h/--help
  | pos                                              -- positional, nargs='*'
  deriving DecidableEq, Repr

structure OptSpec where
  strings : List Name        -- option strings; for a positional: `[dest]`
  kind : Kind
  mutex : Bool               -- member of the (only) mutually exclusive group
  deriving DecidableEq, Repr

/-- a command parser (`AkArgumentParser`) -/
structure Parser where
  name : Name
  internal : Bool
  deps : List Name           -- keys of `_dependent_parsers`, insertion order
  opts : List OptSpec        -- `_actions`, in order of `add_argument`
  deriving DecidableEq, Repr

/-- what is read from the source by the translator -/
structure Cfg where
  std : List OptSpec         -- actions every command parser starts with (help + `_mk_std_args`)
  helpFirst : List Name      -- the literal `['-h', '--help']` of `parse_args`
  allParsers : Bool          -- first argument is compared with all parser names (`command_parsers`),
                             -- `false`: with the public command names only
  deriving Repr

structure St where
  parsers : List Parser      -- `command_parsers`, insertion order
  default : Option Name
  deriving Repr

inductive Fail where
  | exc (e : Err)
  | argumentError
  | exit (code : Nat)
  | ood
  deriving DecidableEq, Repr

/-! ### declaration strings -/

/-- `str.isspace` for one character (the characters `str.strip()` removes) -/
def isSpace (c : Char) : Bool :=
  let n := c.toNat
  (9 ≤ n && n ≤ 13) || (28 ≤ n && n ≤ 32) || n = 0x85 || n = 0xa0 || n = 0x1680 ||
  (0x2000 ≤ n && n ≤ 0x200a) || n = 0x2028 || n = 0x2029 || n = 0x202f || n = 0x205f || n = 0x3000

def strip (s : Name) : Name :=
  ((s.dropWhile isSpace).reverse.dropWhile isSpace).reverse

/-- `str.split(sep)`: first piece and the remaining pieces -/
def splitOn (sep : Char) : List Char → Name × List Name
  | [] => ([], [])
  | c :: cs =>
    let r := splitOn sep cs
    if c = sep then ([], r.1 :: r.2) else (c :: r.1, r.2)

def splitAll (sep : Char) (s : Name) : List Name :=
  let r := splitOn sep s
  r.1 :: r.2

def dedup : List Name → List Name
  | [] => []
  | x :: xs => if x ∈ xs then dedup xs else x :: dedup xs

def parseDecl (s : Name) : Decl :=
  let cmd := s.takeWhile (· ≠ ':')
  let rest := s.dropWhile (· ≠ ':')
  let parents := match rest with
    | [] => []
    | _ :: ps => dedup (((splitAll ',' ps).map strip).filter (· ≠ []))
  match cmd with
  | '!' :: nm => { name := nm, internal := true, parents := parents }
  | _ => { name := cmd, internal := false, parents := parents }

/-! ### construction -/

def names (ps : List Parser) : List Name := ps.map (·.name)

/-- `register_dependent(name, parser)`: a second registration of the same name is a no-op -/
def Parser.register (q : Parser) (c : Name) : Parser :=
  if c ∈ q.deps then q else { q with deps := q.deps ++ [c] }

/-- registration of `c` for the parent `p`: in `p` and in every parser listing `p` as dependent -/
def regParent (c : Name) (ps : List Parser) (p : Name) : List Parser :=
  ps.map fun q => if q.name = p ∨ p ∈ q.deps then q.register c else q

def declare (std : List OptSpec) (ps : List Parser) (d : Decl) : Except Err (List Parser) :=
  if d.name = [] then .error .assertion
  else if d.name ∈ names ps then .error .assertion
  else if d.parents.any (fun p => !(names ps).contains p) then .error .assertion
  else .ok (d.parents.foldl (regParent d.name) ps ++
            [{ name := d.name, internal := d.internal, deps := [], opts := std }])

def declareAll (std : List OptSpec) : List Parser → List Decl → Except Err (List Parser)
  | ps, [] => .ok ps
  | ps, d :: ds =>
    match declare std ps d with
    | .error e => .error e
    | .ok ps' => declareAll std ps' ds

def publicNames (ps : List Parser) : List Name := names (ps.filter (fun q => !q.internal))

/-- `if default_command is None and commands_names: default_command = commands_names[0]` -/
def chooseDefault (dflt : Option Name) (ps : List Parser) : Option Name :=
  match dflt with
  | some d => some d
  | none => (publicNames ps).head?

def build (cfg : Cfg) (dflt : Option Name) (ds : List Decl) : Except Err St :=
  if ds = [] then .error .assertion
  else match declareAll cfg.std [] ds with
    | .error e => .error e
    | .ok ps => .ok { parsers := ps, default := chooseDefault dflt ps }

/-! ### options -/

def OptSpec.isOpt (o : OptSpec) : Bool := o.kind != .pos

/-- the option strings of a parser (`_option_string_actions` keys) -/
def optStrings (tbl : List OptSpec) : List Name :=
  (tbl.filter (·.isOpt)).flatMap (·.strings)

/-- argparse's `_check_conflict` (conflict_handler='error'); positionals never conflict -/
def conflicts (tbl : List OptSpec) (s : OptSpec) : Bool :=
  s.isOpt && s.strings.any (fun x => (optStrings tbl).contains x)

def Parser.addOpt (q : Parser) (s : OptSpec) : Except Fail Parser :=
  if conflicts q.opts s then .error .argumentError else .ok { q with opts := q.opts ++ [s] }

def mapE {α β ε} (f : α → Except ε β) : List α → Except ε (List β)
  | [] => .ok []
  | a :: as =>
    match f a with
    | .error e => .error e
    | .ok b =>
      match mapE f as with
      | .error e => .error e
      | .ok bs => .ok (b :: bs)

def findParser (ps : List Parser) (n : Name) : Option Parser := ps.find? (fun q => q.name == n)

/-- `target = none`: `ArgParser.add_argument`; `some p`: `get_cmd_parser(p).add_argument` -/
def addOption (st : St) (target : Option Name) (s : OptSpec) : Except Fail St :=
  match target with
  | none =>
    match mapE (fun q => q.addOpt s) st.parsers with
    | .error e => .error e
    | .ok ps => .ok { st with parsers := ps }
  | some p =>
    match findParser st.parsers p with
    | none => .error (.exc .valueError)
    | some q =>
      match mapE (fun r => if r.name = p ∨ r.name ∈ q.deps then r.addOpt s else .ok r) st.parsers with
      | .error e => .error e
      | .ok ps => .ok { st with parsers := ps }

/-- a history of `add_argument` calls, all of which must succeed -/
def addAll : St → List (Option Name × OptSpec) → Except Fail St
  | st, [] => .ok st
  | st, a :: as =>
    match addOption st a.1 a.2 with
    | .error e => .error e
    | .ok st' => addAll st' as

/-! ### one parser scanning its arguments -/

inductive Val where
  | bool (b : Bool)
  | none
  | str (s : Name)
  | nat (n : Nat)
  | list (l : List Name)
  deriving DecidableEq, Repr

abbrev Ns := List (Name × Val)

def Ns.get (ns : Ns) (k : Name) : Option Val := (ns.find? (fun p => p.1 == k)).map (·.2)

def Ns.set (ns : Ns) (k : Name) (v : Val) : Ns :=
  if ns.any (fun p => p.1 == k) then ns.map (fun p => if p.1 == k then (k, v) else p)
  else ns ++ [(k, v)]

def Ns.erase (ns : Ns) (k : Name) : Ns := ns.filter (fun p => p.1 != k)

/-- argparse's dest: first `--long` string without the dashes, else the first string without its
dash; `-` inside becomes `_`. A positional's dest is its name. -/
def destOf (o : OptSpec) : Name :=
  if o.kind = .pos then
    match o.strings with
    | s :: _ => s
    | [] => []
  else
    let longs := o.strings.filter (fun s => s.take 2 == ['-', '-'])
    let raw := match longs with
      | s :: _ => s.drop 2
      | [] => match o.strings with
        | s :: _ => s.drop 1
        | [] => []
    raw.map (fun c => if c = '-' then '_' else c)

def defaultOf (o : OptSpec) : Option Val :=
  match o.kind with
  | .flag => some (.bool false)
  | .value => some .none
  | .count => some (.nat 0)
  | .optChoice _ d => some (.str d)
  | .help => Option.none
  | .pos => some .none

/-- `parse_known_args`: defaults of all actions, first action of a dest wins -/
def defaults : List OptSpec → Ns → Ns
  | [], ns => ns
  | o :: os, ns =>
    match defaultOf o with
    | Option.none => defaults os ns
    | some v => defaults os (if (ns.get (destOf o)).isSome then ns else ns ++ [(destOf o, v)])

inductive Tok where
  | word
  | opt (spec : OptSpec) (explicit : Option Name)
  | unknown
  | ood
  deriving Repr

def findOpt (tbl : List OptSpec) (s : Name) : Option OptSpec :=
  tbl.find? (fun o => o.isOpt && o.strings.contains s)

/-- some option string of the parser starts with `nm` (argparse would try an abbreviation) -/
def prefixClash (tbl : List OptSpec) (nm : Name) : Bool :=
  (optStrings tbl).any (fun x => nm.isPrefixOf x)

/-- `_parse_optional` restricted to the modelled token language -/
def classify (tbl : List OptSpec) (t : Name) : Tok :=
  match t with
  | [] => .word
  | c :: r =>
    if c ≠ '-' then .word
    else match findOpt tbl t with
      | some o => .opt o none
      | none =>
        match r with
        | [] => .word                                    -- a lone "-"
        | c2 :: r2 =>
          if c2 = '-' then
            if r2 = [] then .ood                         -- "--"
            else
              let nm := t.takeWhile (· ≠ '=')
              match t.dropWhile (· ≠ '=') with
              | [] => if prefixClash tbl nm then .ood else .unknown
              | _ :: ex =>
                match findOpt tbl nm with
                | some o => .opt o (some ex)
                | none => if prefixClash tbl nm then .ood else .unknown
          else
            if (findOpt tbl ['-', c2]).isSome || prefixClash tbl t || c2.isDigit || t.contains '=' then .ood
            else .unknown

inductive Run where
  | idle
  | opened (ws : List Name)
  | done
  deriving Repr

structure PS where
  ns : Ns
  seen : List Name       -- first strings of the mutually exclusive actions already taken
  run : Run
  extras : Bool
  deriving Repr

def posDests (tbl : List OptSpec) : List Name := (tbl.filter (fun o => !o.isOpt)).map destOf

/-- `consume_positionals`: the first `*` positional takes the whole run, the others `[]` -/
def assignPos : List Name → List Name → Ns → Ns
  | [], _, ns => ns
  | d :: ds, ws, ns => assignPos ds [] (ns.set d (.list ws))

def closeRun (tbl : List OptSpec) (ps : PS) : PS :=
  match ps.run with
  | .opened ws => { ps with run := .done, ns := assignPos (posDests tbl) ws ps.ns }
  | _ => ps

def addWord (tbl : List OptSpec) (ps : PS) (w : Name) : PS :=
  match ps.run with
  | .idle => if (posDests tbl).isEmpty then { ps with extras := true } else { ps with run := .opened [w] }
  | .opened ws => { ps with run := .opened (ws ++ [w]) }
  | .done => { ps with extras := true }

def finish (tbl : List OptSpec) (ps : PS) : PS :=
  match ps.run with
  | .idle => { ps with run := .done, ns := assignPos (posDests tbl) [] ps.ns }
  | .opened _ => closeRun tbl ps
  | .done => ps

def keyOf (o : OptSpec) : Name :=
  match o.strings with
  | s :: _ => s
  | [] => []

/-- `take_action`'s mutual exclusion test (every use counts as non-default, see the harness) -/
def mutexOk (o : OptSpec) (ps : PS) : Option PS :=
  if o.mutex then
    if ps.seen.any (fun k => k != keyOf o) then Option.none
    else some { ps with seen := keyOf o :: ps.seen }
  else some ps

def setv (o : OptSpec) (v : Val) (ps : PS) : PS := { ps with ns := ps.ns.set (destOf o) v }

def runP (tbl : List OptSpec) : List Name → PS → Except Fail PS
  | [], ps => .ok (finish tbl ps)
  | t :: rest, ps =>
    match classify tbl t with
    | .ood => .error .ood
    | .word => runP tbl rest (addWord tbl ps t)
    | .unknown => runP tbl rest { closeRun tbl ps with extras := true }
    | .opt o ex =>
      let ps := closeRun tbl ps
      match o.kind with
      | .pos => .error .ood
      | .help =>
        match ex with
        | some _ => .error (.exit 2)
        | none => .error (.exit 0)
      | .flag =>
        match ex with
        | some _ => .error (.exit 2)
        | none =>
          match mutexOk o ps with
          | none => .error (.exit 2)
          | some ps => runP tbl rest (setv o (.bool true) ps)
      | .count =>
        match ex with
        | some _ => .error (.exit 2)
        | none =>
          match mutexOk o ps with
          | none => .error (.exit 2)
          | some ps =>
            match ps.ns.get (destOf o) with
            | some (.nat n) => runP tbl rest (setv o (.nat (n + 1)) ps)
            | some .none => runP tbl rest (setv o (.nat 1) ps)
            | Option.none => runP tbl rest (setv o (.nat 1) ps)
            | _ => .error (.exc .typeError)
      | .value =>
        match ex with
        | some v =>
          match mutexOk o ps with
          | none => .error (.exit 2)
          | some ps => runP tbl rest (setv o (.str v) ps)
        | none =>
          match rest with
          | [] => .error (.exit 2)
          | w :: rest' =>
            match classify tbl w with
            | .ood => .error .ood
            | .word =>
              match mutexOk o ps with
              | none => .error (.exit 2)
              | some ps => runP tbl rest' (setv o (.str w) ps)
            | _ => .error (.exit 2)
      | .optChoice choices _ =>
        match ex with
        | some v =>
          if choices.contains v then
            match mutexOk o ps with
            | none => .error (.exit 2)
            | some ps => runP tbl rest (setv o (.str v) ps)
          else .error (.exit 2)
        | none =>
          match rest with
          | [] =>
            match mutexOk o ps with
            | none => .error (.exit 2)
            | some ps => runP tbl [] (setv o .none ps)
          | w :: rest' =>
            match classify tbl w with
            | .ood => .error .ood
            | .word =>
              if choices.contains w then
                match mutexOk o ps with
                | none => .error (.exit 2)
                | some ps => runP tbl rest' (setv o (.str w) ps)
              else .error (.exit 2)
            | _ =>
              match mutexOk o ps with
              | none => .error (.exit 2)
              | some ps => runP tbl (w :: rest') (setv o .none ps)

/-- one sub-parser: `parse_known_args` followed by the top-level "unrecognized arguments" error -/
def runParser (q : Parser) (args : List Name) : Except Fail Ns :=
  match runP q.opts args { ns := defaults q.opts [], seen := [], run := .idle, extras := false } with
  | .error e => .error e
  | .ok ps => if ps.extras then .error (.exit 2) else .ok ps.ns

/-! ### `ArgParser.parse_args` -/

def truthy : Val → Bool
  | .bool b => b
  | .none => false
  | .str s => !s.isEmpty
  | .nat n => n != 0
  | .list l => !l.isEmpty

def noColor : Name := ['n', 'o', '_', 'c', 'o', 'l', 'o', 'r']
def color : Name := ['c', 'o', 'l', 'o', 'r']
def command : Name := ['c', 'o', 'm', 'm', 'a', 'n', 'd']

/-- `if args.no_color: args.color = False` / `del args.no_color` -/
def post (ns : Ns) : Except Fail Ns :=
  match ns.get noColor with
  | Option.none => .error (.exc .attributeError)
  | some v => .ok ((if truthy v then ns.set color (.bool false) else ns).erase noColor)

def firstArgNames (cfg : Cfg) (st : St) : List Name :=
  if cfg.allParsers then names st.parsers else publicNames st.parsers

/-- the "black magic": insert the default command unless the first argument is a help option or a
known name. `none` stands for Python's `None` (no public command, no explicit default). -/
def withDefault (cfg : Cfg) (st : St) (argv : List Name) : List (Option Name) :=
  let keep := match argv with
    | [] => false
    | a :: _ => cfg.helpFirst.contains a || (firstArgNames cfg st).contains a
  if keep then argv.map some else st.default :: argv.map some

def mergeNs (base : Ns) : Ns → Ns
  | [] => base
  | (k, v) :: r => mergeNs (base.set k v) r

/-- the top-level parser: `-h`/`--help`, then the sub-parser chosen by the first argument -/
def dispatch (st : St) (argv : List (Option Name)) : Except Fail Ns :=
  match argv with
  | [] => .error (.exit 2)                     -- unreachable after `withDefault`: command required
  | Option.none :: _ => .error (.exit 2)       -- invalid choice: None
  | some a :: rest =>
    if a = ['-', 'h'] ∨ a = ['-', '-', 'h', 'e', 'l', 'p'] then .error (.exit 0)
    else match findParser (st.parsers.filter (fun q => !q.internal)) a with
      | Option.none => .error (.exit 2)        -- invalid choice
      | some q =>
        match runParser q (rest.filterMap id) with
        | .error e => .error e
        | .ok sub => post (mergeNs [(command, .str a)] sub)

def parseArgs (cfg : Cfg) (st : St) (argv : List Name) : Except Fail Ns :=
  dispatch st (withDefault cfg st argv)

end CliGraph
