import AkVerif.Model.Common
/-!
Model of `/repo/ak/cli_tools.py` (C19), first part: declarations and option tables
(the scan of the arguments and `parse_args` are in `Model/CliArgs.lean`).

* `parseDecl`    — the command string `"!name:parent1, parent2"` (split at the first `:`, one leading
                   `!`, parents split at `,`, stripped, empty pieces dropped, collected in a set).
* `declareByParent` — one iteration of the loop in `_init_multicmd_parser`: the three `assert`s, then the
                   new parser is registered in each parent and in every parser that already lists that
                   parent as dependent (`register_dependent` is idempotent since 016eb00).
* `declare`      — the same with the parents handled in one pass (proved equal, fast on long chains).
* `build`        — the whole loop, `assert commands`, choice of the default command.
* `addOption`    — `ArgParser.add_argument` (target `none`: every parser, no propagation) and
                   `get_cmd_parser(p).add_argument` (dependents of `p`, then `p`; one level only).
                   `argparse`'s conflict test on option strings is the only thing that can fail.

The standard options and the first-argument test come from the source (`Cfg`, filled by `Gen.C19`).
-/
namespace CliGraph
open Ak

abbrev Name := List Char

/-- one entry of `commands=` after parsing -/
structure Decl where
  name : Name
  internal : Bool
  parents : List Name
  deriving DecidableEq, Repr

/-- `nargs` of a positional: absent (exactly one), `'?'`, `'*'`, `'+'` -/
inductive PosN where
  | one | opt | star | plus
  deriving DecidableEq, Repr

/-- what `add_argument` creates -/
inductive Kind where
  | flag                                             -- action='store_true'
  | flagOff                                          -- action='store_false'
  | const (v : Name)                                 -- action='store_const', const=v
  | value                                            -- one string value
  | count                                            -- action='count', default 0
  | optChoice (choices : List Name) (dflt : Name)    -- nargs='?', choices, const None
  | help                                             -- action='help': argparse's -h/--help, or declared by the application
  | version (v : Name)                               -- action='version', version=v: prints `v`, exits with status 0
  | pos (n : PosN)                                   -- positional
  deriving DecidableEq, Repr

def Kind.isPos : Kind → Bool
  | .pos _ => true
  | _ => false

/-- `type=` / `choices=` of a value option: what the argument string must be and what is stored -/
inductive Conv where
  | str                          -- neither: the string itself
  | int                          -- `type=int`: Python's `int(text)`; a non-integer is refused
  | oneOf (l : List Name)        -- `choices=[...]`: a non-member is refused
  deriving DecidableEq, Repr

/-- `action='help'` / `action='version'`: print and leave, nothing is stored -/
def Kind.isInfo : Kind → Bool
  | .help => true
  | .version _ => true
  | _ => false

structure OptSpec where
  strings : List Name        -- option strings; for a positional: `[dest]`
  kind : Kind
  mutex : Bool               -- member of the (only) mutually exclusive group
  dest : Option Name := none -- explicit `dest=`
  required : Bool := false   -- `required=True`
  dflt : Option Name := none -- `default=` of a value option (a string; the harness also uses it for objects)
  conv : Conv := .str        -- `type=int` / `choices=[...]` of a value option
  deriving DecidableEq, Repr

/-- a command parser (`AkArgumentParser`) -/
structure Parser where
  name : Name
  internal : Bool
  deps : List Name           -- keys of `_dependent_parsers`, insertion order
  opts : List OptSpec        -- `_actions`, in order of `add_argument`
  deriving DecidableEq, Repr

/-- what is read from the source by the translator -/
structure Cfg where
  std : List OptSpec         -- actions every parser starts with (help + `_mk_std_args`)
  stdNoLog : List OptSpec    -- the same when the ArgParser is built with `_no_log=True`
  helpFirst : List Name      -- the literal `['-h', '--help']` of `parse_args`
  allParsers : Bool          -- first argument is compared with all parser names (`command_parsers`),
                             -- `false`: with the public command names only
  copiesArgs : Bool          -- `parse_args` works on `list(args)`: any sequence is taken, the caller's object is
                             -- left alone (`false`: the default command is inserted into the caller's own list)
  deriving Repr

structure St where
  parsers : List Parser      -- `command_parsers`, insertion order
  default : Option Name
  deriving Repr

inductive Fail where
  | exc (e : Err)
  | argumentError
  | exit (code : Nat)
  | version (v : Name)       -- `SystemExit(0)` after printing the version text `v`
  | ood
  deriving DecidableEq, Repr

/-! ### declaration strings -/

/-- `str.isspace` for one character (the characters `str.strip()` removes) -/
def isSpace (c : Char) : Bool :=
  let n := c.toNat
  (9 ≤ n && n ≤ 13) || (28 ≤ n && n ≤ 32) || n = 0x85 || n = 0xa0 || n = 0x1680 ||
  (0x2000 ≤ n && n ≤ 0x200a) || n = 0x2028 || n = 0x2029 || n = 0x202f || n = 0x205f || n = 0x3000

def strip (s : Name) : Name :=
  ((s.dropWhile isSpace).reverse.dropWhile isSpace).reverse

/-- `str.split(sep)`: first piece and the remaining pieces -/
def splitOn (sep : Char) : List Char → Name × List Name
  | [] => ([], [])
  | c :: cs =>
    let r := splitOn sep cs
    if c = sep then ([], r.1 :: r.2) else (c :: r.1, r.2)

def splitAll (sep : Char) (s : Name) : List Name :=
  let r := splitOn sep s
  r.1 :: r.2

def dedup : List Name → List Name
  | [] => []
  | x :: xs => if x ∈ xs then dedup xs else x :: dedup xs

def parseDecl (s : Name) : Decl :=
  let cmd := s.takeWhile (· ≠ ':')
  let rest := s.dropWhile (· ≠ ':')
  let parents := match rest with
    | [] => []
    | _ :: ps => dedup (((splitAll ',' ps).map strip).filter (· ≠ []))
  match cmd with
  | '!' :: nm => { name := nm, internal := true, parents := parents }
  | _ => { name := cmd, internal := false, parents := parents }

/-! ### construction -/

def names (ps : List Parser) : List Name := ps.map (·.name)

/-- `register_dependent(name, parser)`: a second registration of the same name is a no-op.
(`deps` is kept newest first.) -/
def Parser.register (q : Parser) (c : Name) : Parser :=
  if c ∈ q.deps then q else { q with deps := c :: q.deps }

/-- registration of `c` for the parent `p`: in `p` and in every parser listing `p` as dependent -/
def regParent (c : Name) (ps : List Parser) (p : Name) : List Parser :=
  ps.map fun q => if q.name = p ∨ p ∈ q.deps then q.register c else q

/-- one iteration of the loop, shaped like the code: parent by parent, idempotent registration -/
def declareByParent (std : List OptSpec) (ps : List Parser) (d : Decl) : Except Err (List Parser) :=
  if d.name = [] then .error .assertion
  else if d.name ∈ names ps then .error .assertion
  else if d.parents.any (fun p => !(names ps).contains p) then .error .assertion
  else .ok (d.parents.foldl (regParent d.name) ps ++
            [{ name := d.name, internal := d.internal, deps := [], opts := std }])

/-- does some parent of the new command concern `q` (is `q` a parent, or does it list one as dependent)? -/
def touches (parents : List Name) (q : Parser) : Bool :=
  parents.any (fun p => decide (q.name = p ∨ p ∈ q.deps))

def Parser.push (q : Parser) (c : Name) : Parser := { q with deps := c :: q.deps }

/-- the same iteration with all parents handled at once (what the driver executes: linear in the
number of parsers for chains; equal to `declareByParent` whenever the new name is not yet a
dependent of anybody — `C19.declare_follows_code`) -/
def declare (std : List OptSpec) (ps : List Parser) (d : Decl) : Except Err (List Parser) :=
  if d.name = [] then .error .assertion
  else if d.name ∈ names ps then .error .assertion
  else if d.parents.any (fun p => !(names ps).contains p) then .error .assertion
  else .ok (ps.map (fun q => if touches d.parents q then q.push d.name else q) ++
            [{ name := d.name, internal := d.internal, deps := [], opts := std }])

def declareAll (std : List OptSpec) : List Parser → List Decl → Except Err (List Parser)
  | ps, [] => .ok ps
  | ps, d :: ds =>
    match declare std ps d with
    | .error e => .error e
    | .ok ps' => declareAll std ps' ds

def publicNames (ps : List Parser) : List Name := names (ps.filter (fun q => !q.internal))

/-- `if default_command is None and commands_names: default_command = commands_names[0]` -/
def chooseDefault (dflt : Option Name) (ps : List Parser) : Option Name :=
  match dflt with
  | some d => some d
  | none => (publicNames ps).head?

def Cfg.stdOf (cfg : Cfg) (noLog : Bool) : List OptSpec := if noLog then cfg.stdNoLog else cfg.std

def build (cfg : Cfg) (noLog : Bool) (dflt : Option Name) (ds : List Decl) : Except Err St :=
  if ds = [] then .error .assertion
  else match declareAll (cfg.stdOf noLog) [] ds with
    | .error e => .error e
    | .ok ps => .ok { parsers := ps, default := chooseDefault dflt ps }

/-! ### options -/

def OptSpec.isOpt (o : OptSpec) : Bool := !o.kind.isPos

/-- the option strings of a parser (`_option_string_actions` keys) -/
def optStrings (tbl : List OptSpec) : List Name :=
  (tbl.filter (·.isOpt)).flatMap (·.strings)

/-- argparse's `_check_conflict` (conflict_handler='error'); positionals never conflict -/
def conflicts (tbl : List OptSpec) (s : OptSpec) : Bool :=
  s.isOpt && s.strings.any (fun x => (optStrings tbl).contains x)

def Parser.addOpt (q : Parser) (s : OptSpec) : Except Fail Parser :=
  if conflicts q.opts s then .error .argumentError else .ok { q with opts := q.opts ++ [s] }

def mapE {α β ε} (f : α → Except ε β) : List α → Except ε (List β)
  | [] => .ok []
  | a :: as =>
    match f a with
    | .error e => .error e
    | .ok b =>
      match mapE f as with
      | .error e => .error e
      | .ok bs => .ok (b :: bs)

def findParser (ps : List Parser) (n : Name) : Option Parser := ps.find? (fun q => q.name == n)

/-- `target = none`: `ArgParser.add_argument`; `some p`: `get_cmd_parser(p).add_argument` -/
def addOption (st : St) (target : Option Name) (s : OptSpec) : Except Fail St :=
  match target with
  | none =>
    match mapE (fun q => q.addOpt s) st.parsers with
    | .error e => .error e
    | .ok ps => .ok { st with parsers := ps }
  | some p =>
    match findParser st.parsers p with
    | none => .error (.exc .valueError)
    | some q =>
      match mapE (fun r => if r.name = p ∨ r.name ∈ q.deps then r.addOpt s else .ok r) st.parsers with
      | .error e => .error e
      | .ok ps => .ok { st with parsers := ps }

/-- `get_cmd_parser(p).add_mutually_exclusive_group().add_argument(...)` / `.add_argument_group().add_argument(...)`:
the group object is argparse's own, its `add_argument` is not `AkArgumentParser.add_argument` — the option lands
in `p` and **nowhere else** (known finding `group_options_not_inherited`; such states are outside `addAll`) -/
def addViaGroup (st : St) (p : Name) (s : OptSpec) : Except Fail St :=
  match findParser st.parsers p with
  | none => .error (.exc .valueError)
  | some _ =>
    match mapE (fun r => if r.name = p then r.addOpt s else .ok r) st.parsers with
    | .error e => .error e
    | .ok ps => .ok { st with parsers := ps }

/-- a history of `add_argument` calls, all of which must succeed -/
def addAll : St → List (Option Name × OptSpec) → Except Fail St
  | st, [] => .ok st
  | st, a :: as =>
    match addOption st a.1 a.2 with
    | .error e => .error e
    | .ok st' => addAll st' as

end CliGraph
