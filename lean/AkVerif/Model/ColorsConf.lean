import AkVerif.Model.Common
import AkVerif.Gen.C14
/-!
Model of `ColorsConfig`, `_ColorConfColorDescr` and `Palette` creation in `/repo/ak/color.py` (C14).

Part 1 (strings, description parser, `ColorFmt` prefix) follows the code function by function:
`splitOn` = `str.split(c)`, `strip` = `str.strip()` (ASCII white space), `pyInt` = `int(str)` on ASCII
input (sign, digits, single underscores between digits), `parseColorImpl` = `_parse_color_impl`,
`parseColorsPart` = `_parse_colors_part`, `parseModifiers` = `_parse_modifiers`, `parseInitStr` =
`_parse_init_str` followed by the `None -> ""` replacement of the constructor, `seqElement` =
`_ColorSequences._make_seq_element`, `colorFmt` = the prefix computed by `_ColorSequences.make`.
The tables (`_COLORS`, `_COLORS_NAMES`, `_MODIFIERS`, effect order and codes, `BUILT_IN_CONFIG`,
`DFLT_SYNTAX_ID`) are `Gen.C14.*`, regenerated from the source on every run.

Part 2 is the state: `syntax_map` is an insertion-ordered association list `SMap`; an `Entry` keeps the
description as registered (`initStr` and its parsed form `desc`; they never change) and, once
`_ColorConfColorDescr.resolve` has run, the effective colours/modifiers it left in the object together
with the prefix of the `ColorFmt` it created (`res`).  `addNewItems` is `add_new_items` as the code runs it:
cache reset, insertion with first-registration-wins, then `resolveAll`: the `while to_resolve` loop over
`sorted(to_resolve.items())`, each item walking up its parent chain (`walk`: circular-dependency assertion,
already resolved ancestor, `cant_resolve`/unknown parent) and resolving the accumulated path from the
ancestor downwards (`resolvePath`).  The path is kept reversed (newest first), which is the order
`reversed(path)` iterates in.

Part 3: `Palette` classes (static table `ClassDef`), registration of class defaults with
`PARENT_PALETTES`, palette creation through the metaclass (`_get_existing_palette`,
`_prepare_local_colors`, `_store_palette_in_cache`); a palette is the snapshot of its accessors' prefixes.

Part 4: histories (`Op`, `stepOp`, `run`).  Part 5: the declarative reading of the statement (`Resolves`,
`resolveSpec`, `Acyclic`, `SpecColor`, first-registration-wins on description strings) — specification, not
executed by the driver.  Parts 6 and 7 are in `Model/ColorsConfGlobal.lean`.  Part 6: the configuration as the global one and synced palettes (`GWorld`,
`addWith`, `registerClassG`, `syncList`, `stepG`, `runAll`); the driver executes `newConf` and `stepG`
(`C14.global_off_same`: without `setGlobal`/`syn`/`sget` this is `run`).  Part 7: several configurations taking
turns as the global one (`MWorld`, `stepM`, `runM`): what the driver executes; every step is a `stepG` on a view.

Not modelled: the configuration that is the global one before the first `setGlobal` of a case (its colours are
never read), `GlobalPalette`, `CompoundPalette` sub-palettes, the state left behind by a
registration that raised (the protocol stops using the configuration then).

A formatter is represented by its prefix: `ColorFmt.__call__` renders `prefix ++ text ++ suffix` and the
suffix is `ESC[0m` exactly when the prefix is not empty (checked by the adapter on every reply).
-/
namespace ColorsConf
open Ak

abbrev Str := List Char
abbrev Id := List Char
abbrev Cfg := Gen.C14.Cfg
abbrev CfgItems := Gen.C14.CfgItems

/-! ## Part 1: strings, parser, formatter -/

/-- `s.split(c)` for a one-character separator: always at least one chunk -/
def splitOn (c : Char) : Str → List Str
  | [] => [[]]
  | x :: xs =>
    if x = c then [] :: splitOn c xs
    else match splitOn c xs with
      | [] => [[x]]
      | h :: t => (x :: h) :: t

/-- ASCII characters for which `str.isspace()` holds (what `strip()` and `int()` skip) -/
def isSpace (c : Char) : Bool :=
  let n := c.toNat
  n = 32 || (9 ≤ n && n ≤ 13) || (28 ≤ n && n ≤ 31)

def strip (s : Str) : Str :=
  ((s.dropWhile isSpace).reverse.dropWhile isSpace).reverse

def digitVal (c : Char) : Option Nat :=
  if 48 ≤ c.toNat ∧ c.toNat ≤ 57 then some (c.toNat - 48) else none

/-- digits with single underscores between digits; `prev` = the previous character was a digit -/
def parseDigits (acc : Nat) (prev : Bool) : Str → Option Nat
  | [] => if prev then some acc else none
  | c :: cs =>
    match digitVal c with
    | some d => parseDigits (acc * 10 + d) true cs
    | none => if c = '_' ∧ prev then parseDigits acc false cs else none

/-- `int(s)` for ASCII `s`; `none` is `ValueError` -/
def pyInt (s : Str) : Option Int :=
  match strip s with
  | '+' :: r => (parseDigits 0 false r).map Int.ofNat
  | '-' :: r => (parseDigits 0 false r).map fun n => - Int.ofNat n
  | r => (parseDigits 0 false r).map Int.ofNat

/-- the value `_parse_color_impl` returns for a real colour: a name (`'RED'`, `'g5'`), an int, a tuple -/
inductive Color where
  | named (s : Str)
  | num (n : Nat)
  | rgb (r g b : Nat)
  deriving DecidableEq, Repr

/-- one colour slot of a description: `""` (unspecified), `"-"` (terminal default) or a colour -/
inductive Part where
  | unspec
  | dflt
  | col (c : Color)
  deriving DecidableEq, Repr

def dictGet {β : Type} : List (Str × β) → Str → Option β
  | [], _ => none
  | (k, v) :: r, key => if k = key then some v else dictGet r key

/-- `d[k] = v` on an insertion-ordered dict -/
def dictSet {β : Type} : List (Str × β) → Str → β → List (Str × β)
  | [], k, v => [(k, v)]
  | (k', v') :: r, k, v => if k' = k then (k', v) :: r else (k', v') :: dictSet r k v

def natRange (i : Int) (lo hi : Nat) : Option Nat :=
  if 0 ≤ i ∧ (lo : Int) ≤ i ∧ i ≤ (hi : Int) then some i.toNat else none

def dropLast : Str → Str
  | [] => []
  | [_] => []
  | x :: y :: r => x :: dropLast (y :: r)

/-- `_parse_color_impl`; `none` is `ValueError` -/
def parseColorImpl (color : Str) : Option Part :=
  let c := strip color
  if c ∈ Gen.C14.colorNames then
    some (if c = [] then .unspec else if c = ['-'] then .dflt else .col (.named c))
  else match c with
    | '(' :: rest =>
      if c.getLast? ≠ some ')' then none
      else
        match (splitOn ',' (dropLast rest)).map strip with
        | [a, b, d] =>
          match pyInt a, pyInt b, pyInt d with
          | some r, some g, some bl =>
            match natRange r 0 5, natRange g 0 5, natRange bl 0 5 with
            | some r, some g, some bl => some (.col (.rgb r g bl))
            | _, _, _ => none
          | _, _, _ => none
        | _ => none
    | _ =>
      match pyInt c with
      | some i => (natRange i 0 255).map fun n => .col (.num n)
      | none => none

/-- result of `_parse_colors_part`: `(parent, fg, bg)` with Python's `None`s -/
structure ColorsPart where
  parent : Option Id
  fg : Option Part
  bg : Option Part

/-- `_parse_colors_part`; `none` is `ValueError` -/
def parseColorsPart (part : Str) : Option ColorsPart :=
  match splitOn '/' part with
  | [_] =>
    match parseColorImpl part with
    | some fg => some ⟨none, some fg, some .unspec⟩
    | none =>
      if ',' ∈ part ∨ (dictGet Gen.C14.modifiers part).isSome then none
      else some ⟨some part, none, none⟩
  | [a, b] =>
    match parseColorImpl a, parseColorImpl b with
    | some fg, some bg => some ⟨none, some fg, some bg⟩
    | _, _ => none
  | _ => none

abbrev Mods := List (Str × Bool)

/-- `_parse_modifiers` (after the chunks were stripped and the empty ones dropped) -/
def parseModsGo (acc : Mods) : List Str → Option Mods
  | [] => some acc
  | m :: r =>
    match dictGet Gen.C14.modifiers m with
    | some (eff, v) => parseModsGo (dictSet acc eff v) r
    | none => none

def parseModifiers (s : Str) : Option Mods :=
  parseModsGo [] (((splitOn ',' s).map strip).filter (· ≠ []))

/-- a parsed description: what `__init__` stores before `resolve` (`None` colours already replaced by `""`) -/
structure Desc where
  parent : Option Id
  fg : Part
  bg : Part
  mods : Mods
  deriving DecidableEq, Repr

def optPart : Option Part → Part
  | some p => p
  | none => .unspec

/-- `_parse_init_str` + the `None -> ""` step of `_ColorConfColorDescr.__init__`; errors are `ValueError` -/
def parseInitStr (s : Str) : Except Err Desc :=
  match splitOn ':' s with
  | [c0] =>
    match parseColorsPart c0 with
    | none => .error .valueError
    | some p => .ok ⟨p.parent, optPart p.fg, optPart p.bg, []⟩
  | c0 :: c1 :: rest =>
    if rest.length > 1 then .error .valueError else
    match parseColorsPart c0 with
    | none => .error .valueError
    | some p =>
      match parseColorsPart c1 with
      | none =>
        -- the second section is not a colours section: it must be the (last) modifiers section
        if rest ≠ [] then .error .valueError else
        match parseModifiers c1 with
        | none => .error .valueError
        | some m => .ok ⟨p.parent, optPart p.fg, optPart p.bg, m⟩
      | some p1 =>
        if p1.parent.isSome then .error .valueError
        else if p.fg.isSome then .error .valueError
        else if p.bg.isSome then .error .valueError
        else
          match rest with
          | [] => .ok ⟨p.parent, optPart p1.fg, optPart p1.bg, []⟩
          | c2 :: _ =>
            match parseModifiers c2 with
            | none => .error .valueError
            | some m => .ok ⟨p.parent, optPart p1.fg, optPart p1.bg, m⟩
  | [] => .error .valueError

def natStr (n : Nat) : Str := (Nat.repr n).toList

/-- `_ColorSequences._make_seq_element` -/
def seqElement (isBg : Bool) (c : Color) : Except Err Str :=
  let fb : Str := if isBg then ['4'] else ['3']
  let byNum (n : Nat) : Except Err Str :=
    if n > 255 then .error .valueError else .ok (fb ++ ['8', ':', '5', ':'] ++ natStr n)
  match c with
  | .named s =>
    match dictGet Gen.C14.colors s with
    | some code => .ok (fb ++ code)
    | none =>
      match s with
      | 'g' :: r =>
        match pyInt r with
        | none => .error .valueError
        | some sh =>
          match natRange sh 0 24 with
          | none => .error .valueError
          | some v => byNum (232 + v)
      | _ => .error .valueError
  | .rgb r g b =>
    if r > 5 ∨ g > 5 ∨ b > 5 then .error .valueError else byNum (16 + r * 36 + g * 6 + b)
  | .num n => byNum n

/-- the effective attributes `resolve` leaves in the description object -/
structure Resolved where
  fg : Option Color
  bg : Option Color
  mods : Mods
  deriving DecidableEq, Repr

def effectCodes (mods : Mods) : List (Str × Str) → List Str
  | [] => []
  | (eff, code) :: r =>
    if dictGet mods eff = some true then code :: effectCodes mods r else effectCodes mods r

def joinWith (sep : Char) : List Str → Str
  | [] => []
  | [a] => a
  | a :: b :: r => a ++ sep :: joinWith sep (b :: r)

/-- the code of one optional colour argument of `_ColorSequences.make` -/
def seqOpt (isBg : Bool) : Option Color → Except Err (List Str)
  | none => .ok []
  | some c =>
    match seqElement isBg c with
    | .ok x => .ok [x]
    | .error x => .error x

/-- prefix of `ColorFmt(fg, bg_color=bg, **mods)` -/
def colorFmt (e : Resolved) : Except Err Str :=
  match seqOpt false e.fg with
  | .error x => .error x
  | .ok f =>
    match seqOpt true e.bg with
    | .error x => .error x
    | .ok b =>
      let codes := f ++ b ++ effectCodes e.mods Gen.C14.effects
      .ok (if codes = [] then [] else Char.ofNat 27 :: '[' :: joinWith ';' codes ++ ['m'])

/-! ## Part 2: the configuration -/

/-- what `resolve` produced: effective attributes and the formatter's prefix -/
structure Res where
  eff : Resolved
  fmt : Str
  deriving DecidableEq, Repr

structure Entry where
  initStr : Str
  desc : Desc
  res : Option Res
  deriving DecidableEq, Repr

abbrev SMap := List (Id × Entry)

def lookup : SMap → Id → Option Entry
  | [], _ => none
  | (k, e) :: m, id => if k = id then some e else lookup m id

def setRes : SMap → Id → Res → SMap
  | [], _, _ => []
  | (k, e) :: m, id, r => if k = id then (k, { e with res := some r }) :: m else (k, e) :: setRes m id r

def pickColor (inherited : Option Color) : Part → Option Color
  | .unspec => inherited
  | .dflt => none
  | .col c => some c

/-- `{**parent.modifiers, **self.modifiers}` -/
def mergeMods (parent own : Mods) : Mods :=
  own.foldl (fun acc kv => dictSet acc kv.1 kv.2) parent

/-- the attribute part of `resolve`: own parts override, `""` inherits, `"-"`/`""` end as `None` -/
def effOf (parent : Option Resolved) (d : Desc) : Resolved :=
  match parent with
  | none => ⟨pickColor none d.fg, pickColor none d.bg, d.mods⟩
  | some p => ⟨pickColor p.fg d.fg, pickColor p.bg d.bg, mergeMods p.mods d.mods⟩

def mkFmt (noColor : Bool) (e : Resolved) : Except Err Str :=
  if noColor then .ok [] else colorFmt e

/-- `_ColorConfColorDescr.resolve(parent, no_color)` on a not yet resolved description -/
def resolve1 (noColor : Bool) (d : Desc) (parent : Option Resolved) : Except Err Res :=
  if d.parent.isSome ≠ parent.isSome then .error .assertion else
  match mkFmt noColor (effOf parent d) with
  | .ok f => .ok ⟨effOf parent d, f⟩
  | .error x => .error x

inductive WalkRes where
  | found (parent : Resolved) (rpath : List Id)
  | stuck (rpath : List Id)

/-- the inner `while True` of `add_new_items`, `rpath` = `path` reversed -/
def walk (m : SMap) (cant : List Id) : Nat → Id → List Id → Except Err WalkRes
  | 0, _, _ => .error .outOfFuel
  | fuel + 1, cur, rpath =>
    if cur ∈ rpath then .error .assertion else
    match lookup m cur with
    | none => .error .keyError
    | some e =>
      match e.res with
      | some r => .ok (.found r.eff rpath)
      | none =>
        match e.desc.parent with
        | none => .ok (.stuck rpath)
        | some p =>
          if cur ∈ cant ∨ (lookup m p).isNone then .ok (.stuck rpath)
          else walk m cant fuel p (cur :: rpath)

/-- `for synt_id in reversed(path): ... .resolve(parent_syntax_color, no_color)` -/
def resolvePath (noColor : Bool) : SMap → Resolved → List Id → Except Err SMap
  | m, _, [] => .ok m
  | m, par, id :: rest =>
    match lookup m id with
    | none => .error .keyError
    | some e =>
      if e.res.isSome then .error .assertion else
      match resolve1 noColor e.desc (some par) with
      | .error x => .error x
      | .ok r => resolvePath noColor (setRes m id r) r.eff rest

structure PassSt where
  m : SMap
  cant : List Id
  any : Bool

/-- body of `for synt_id, syntax_color in sorted(to_resolve.items())` -/
def passStep (noColor : Bool) (fuel : Nat) (s : PassSt) (id : Id) : Except Err PassSt :=
  match lookup s.m id with
  | none => .error .keyError
  | some e =>
    if e.res.isSome then .ok s else
    match walk s.m s.cant fuel id [] with
    | .error x => .error x
    | .ok (.stuck rpath) => .ok { s with cant := rpath ++ s.cant }
    | .ok (.found par rpath) =>
      match resolvePath noColor s.m par rpath with
      | .error x => .error x
      | .ok m' => .ok { m := m', cant := s.cant, any := s.any || !rpath.isEmpty }

def pass (noColor : Bool) (fuel : Nat) : PassSt → List Id → Except Err PassSt
  | s, [] => .ok s
  | s, id :: ids =>
    match passStep noColor fuel s id with
    | .error x => .error x
    | .ok s' => pass noColor fuel s' ids

/-- `while to_resolve:` … `if not new_resolved: break` (`to_resolve` itself never changes) -/
def loop (noColor : Bool) (wfuel : Nat) (ids : List Id) : Nat → SMap → List Id → Except Err SMap
  | 0, _, _ => .error .outOfFuel
  | fuel + 1, m, cant =>
    match pass noColor wfuel ⟨m, cant, false⟩ ids with
    | .error x => .error x
    | .ok s => if s.any then loop noColor wfuel ids fuel s.m s.cant else .ok s.m

/-- `a < b` for Python strings (code points, lexicographic) -/
def strLt : Str → Str → Bool
  | [], [] => false
  | [], _ :: _ => true
  | _ :: _, [] => false
  | a :: as, b :: bs => a.toNat < b.toNat || (a = b && strLt as bs)

def insertSorted (x : Id) : List Id → List Id
  | [] => [x]
  | y :: ys => if strLt y x then y :: insertSorted x ys else x :: y :: ys

def sortIds (l : List Id) : List Id := l.foldr insertSorted []

def unresolvedIds (m : SMap) : List Id :=
  (m.filter fun ke => ke.2.res.isNone).map (·.1)

/-- the resolution part of `add_new_items` -/
def resolveAll (noColor : Bool) (m : SMap) : Except Err SMap :=
  let ids := sortIds (unresolvedIds m)
  if ids = [] then .ok m else loop noColor (m.length + 1) ids (ids.length + 1) m []

/-- `for synt_id, init_str in new_items.items(): …` (first registration wins) -/
def insertItems (noColor : Bool) : SMap → List (Id × Str) → Except Err SMap
  | m, [] => .ok m
  | m, (id, s) :: rest =>
    if (lookup m id).isSome then insertItems noColor m rest else
    match parseInitStr s with
    | .error x => .error x
    | .ok d =>
      match d.parent with
      | some _ => insertItems noColor (m ++ [(id, ⟨s, d, none⟩)]) rest
      | none =>
        match resolve1 noColor d none with
        | .error x => .error x
        | .ok r => insertItems noColor (m ++ [(id, ⟨s, d, some r⟩)]) rest

/-- source of a registration: a palette class or anything else hashable (here: a name) -/
inductive Src where
  | cls (k : Nat)
  | name (s : Str)
  deriving DecidableEq, Repr

/-- a palette object: accessor name -> (syntax id, prefix of its formatter), in `_LOCAL_SYNTAX` order -/
abbrev Snap := List (Str × Id × Str)

structure Conf where
  noColor : Bool
  map : SMap
  sources : List Src
  cache : List (Nat × Snap)

/-- `ColorsConfig.add_new_items(new_items, _)` -/
def addNewItems (c : Conf) (items : List (Id × Str)) : Except Err Conf :=
  if items = [] then .ok c else
  let cache := if items.any (fun kv => (lookup c.map kv.1).isNone) then [] else c.cache
  match insertItems c.noColor c.map items with
  | .error x => .error x
  | .ok m1 =>
    match resolveAll c.noColor m1 with
    | .error x => .error x
    | .ok m2 => .ok { c with map := m2, cache := cache }

mutual
/-- `ColorsConfig._flatten_dict` -/
def flattenItems : CfgItems → List (Id × Str) → List (Id × Str)
  | .nil, acc => acc
  | .cons k v rest, acc =>
    match v with
    | .str s => flattenItems rest (dictSet acc k s)
    | .dict sub =>
      flattenItems rest
        ((flattenItems sub []).foldl (fun a kv => dictSet a (k ++ '.' :: kv.1) kv.2) acc)
    | .other => flattenItems rest acc
end

def flatten : Cfg → List (Id × Str)
  | .dict items => flattenItems items []
  | _ => []

/-- `ColorsConfig(init_config, no_color=…)` -/
def newConf (noColor : Bool) (cfg : Cfg) : Except Err Conf :=
  match addNewItems ⟨noColor, [], [], []⟩ (flatten cfg) with
  | .error x => .error x
  | .ok c => addNewItems c (flatten Gen.C14.builtin)

/-- the entry `get_color` looks at: the id's own, or the default syntax's for an unknown id -/
def getEntry (c : Conf) (id : Id) : Option Entry :=
  match lookup c.map id with
  | some e => some e
  | none => lookup c.map Gen.C14.dfltId

/-- `ColorsConfig.get_color(synt_id)`, as the prefix of the formatter -/
def getColor (c : Conf) (id : Id) : Str :=
  match getEntry c id with
  | some ⟨_, _, some r⟩ => r.fmt
  | _ => []

/-- `ColorsConfig.register_color_conf_component(syntax_map, src_obj)` -/
def registerComponent (c : Conf) (cfg : Cfg) (src : Src) : Except Err Conf :=
  if src ∈ c.sources then .error .assertion
  else addNewItems { c with sources := src :: c.sources } (flatten cfg)

/-! ## Part 3: palettes -/

/-- a `Palette` subclass: `PARENT_PALETTES`, `SYNTAX_DEFAULTS`, `_LOCAL_SYNTAX` (with `text`) -/
structure ClassDef where
  parents : List Nat
  defaults : Option Cfg
  accessors : List (Str × Id)

/-- `for p_cls in cls.PARENT_PALETTES: p_cls.register_in_colors_conf(colors_conf)` -/
def regParents {σ : Type} (reg : σ → Nat → Except Err σ) : σ → List Nat → Except Err σ
  | c, [] => .ok c
  | c, p :: ps =>
    match reg c p with
    | .error x => .error x
    | .ok c' => regParents reg c' ps

/-- `Palette.register_in_colors_conf` (fuel bounds the recursion through `PARENT_PALETTES`) -/
def registerClass (classes : List ClassDef) : Nat → Conf → Nat → Except Err Conf
  | 0, _, _ => .error .outOfFuel
  | fuel + 1, c, k =>
    if Src.cls k ∈ c.sources then .ok c else
    match classes[k]? with
    | none => .error .keyError
    | some cd =>
      match regParents (registerClass classes fuel) c cd.parents with
      | .error x => .error x
      | .ok c1 =>
        match cd.defaults with
        | none => .ok c1
        | some cfg => registerComponent c1 cfg (.cls k)

/-- enough fuel for every nesting of parent registrations inside re-syncs (each nesting level registers
at least one more class); running out of it is reported, never hidden -/
def gFuel (classes : List ClassDef) : Nat := (classes.length + 1) * (classes.length + 1) + 1

def snapOf (c : Conf) (accessors : List (Str × Id)) : Snap :=
  accessors.map fun (a, synt) => (a, synt, getColor c synt)

def plainSnap (accessors : List (Str × Id)) : Snap :=
  accessors.map fun (a, synt) => (a, synt, [])

def cacheGet : List (Nat × Snap) → Nat → Option Snap
  | [], _ => none
  | (k, s) :: r, key => if k = key then some s else cacheGet r key

def cacheSet : List (Nat × Snap) → Nat → Snap → List (Nat × Snap)
  | [], k, s => [(k, s)]
  | (k', s') :: r, k, s => if k' = k then (k', s) :: r else (k', s') :: cacheSet r k s

/-- the configuration and the per-class `_PALETTE_NO_COLOR` attributes -/
structure World where
  conf : Conf
  ncCache : List (Nat × Snap)

/-- `PaletteClass(colors_conf, no_color)` through `_PaletteMeta.__call__` (not synced) -/
def getPalette (classes : List ClassDef) (w : World) (k : Nat) (noColor : Bool) :
    Except Err (World × Snap) :=
  match classes[k]? with
  | none => .error .keyError
  | some cd =>
    let fuel := gFuel classes
    if noColor then
      -- `_get_existing_palette` registers the class even for a no-colour palette
      match registerClass classes fuel w.conf k with
      | .error x => .error x
      | .ok c1 =>
        match cacheGet w.ncCache k with
        | some s => .ok (⟨c1, w.ncCache⟩, s)
        | none =>
          let s := plainSnap cd.accessors
          .ok (⟨c1, cacheSet w.ncCache k s⟩, s)
    else
      match cacheGet w.conf.cache k with
      | some s => .ok (w, s)
      | none =>
        match registerClass classes fuel w.conf k with
        | .error x => .error x
        | .ok c1 =>
          let s := snapOf c1 cd.accessors
          .ok (⟨{ c1 with cache := cacheSet c1.cache k s }, w.ncCache⟩, s)

/-! ## Part 4: histories -/

/-- what can happen to a configuration after its construction -/
inductive Op where
  | add (items : List (Id × Str))      -- `conf.add_new_items(items, _)`
  | reg (name : Str) (cfg : Cfg)       -- `conf.register_color_conf_component(cfg, name)`
  | pal (k : Nat) (noColor : Bool)     -- `P_k(conf, no_color)`
  | get (id : Id)                      -- `conf.get_color(id)`: no effect on the state

/-- one operation; the second component is the palette obtained by `pal` -/
def stepOp (classes : List ClassDef) (w : World) : Op → Except Err (World × Option Snap)
  | .add items =>
    match addNewItems w.conf items with
    | .ok c => .ok ({ w with conf := c }, none)
    | .error x => .error x
  | .reg name cfg =>
    match registerComponent w.conf cfg (.name name) with
    | .ok c => .ok ({ w with conf := c }, none)
    | .error x => .error x
  | .pal k nc =>
    match getPalette classes w k nc with
    | .ok (w', s) => .ok (w', some s)
    | .error x => .error x
  | .get _ => .ok (w, none)

def runOps (classes : List ClassDef) : World → List Op → Except Err World
  | w, [] => .ok w
  | w, op :: ops =>
    match stepOp classes w op with
    | .ok (w', _) => runOps classes w' ops
    | .error x => .error x

/-- `ColorsConfig(cfg, no_color=…)` followed by a history of operations -/
def run (classes : List ClassDef) (noColor : Bool) (cfg : Cfg) (ops : List Op) : Except Err World :=
  match newConf noColor cfg with
  | .ok c => runOps classes ⟨c, []⟩ ops
  | .error x => .error x

/-! ## Part 5: the declarative reading of the statement -/

/-- the descriptions a configuration holds, as registered: the strings and their parsed form -/
def strOf (m : SMap) (id : Id) : Option Str := (lookup m id).map (·.initStr)
def descOf (m : SMap) (id : Id) : Option Desc := (lookup m id).map (·.desc)

/-- first registration wins: what a batch of items adds to a set of description strings -/
def firstStr (sm : Id → Option Str) (items : List (Id × Str)) (id : Id) : Option Str :=
  match sm id with
  | some s => some s
  | none => dictGet items id

/-- the parsed form of a description string (`none`: the parser raises `ValueError`) -/
def parsed (s : Str) : Option Desc :=
  match parseInitStr s with
  | .ok d => some d
  | .error _ => none

/-- `Resolves dm id r`: the attributes of `id` determined by the set of descriptions `dm` alone.
A description without a reference stands for itself; a description that refers to `p` takes the
attributes of `p` (resolved the same way, through the whole chain) and overrides them with its own parts
(`effOf`: a colour replaces, `""` keeps the inherited one, `"-"` selects the terminal default, own
modifiers are laid over the inherited ones).  An id whose chain reaches an id that `dm` does not
describe (or runs into a cycle) has no derivation. -/
inductive Resolves (dm : Id → Option Desc) : Id → Resolved → Prop
  | root {id : Id} {d : Desc} : dm id = some d → d.parent = none → Resolves dm id (effOf none d)
  | step {id p : Id} {d : Desc} {pr : Resolved} :
      dm id = some d → d.parent = some p → Resolves dm p pr → Resolves dm id (effOf (some pr) d)

def Resolvable (dm : Id → Option Desc) (id : Id) : Prop := ∃ r, Resolves dm id r

/-- the reference chain of `id`: its description, the description it refers to, … down to one without
reference -/
inductive Chain (dm : Id → Option Desc) : Id → List Desc → Prop
  | root {id : Id} {d : Desc} : dm id = some d → d.parent = none → Chain dm id [d]
  | step {id p : Id} {d : Desc} {ds : List Desc} :
      dm id = some d → d.parent = some p → Chain dm p ds → Chain dm id (d :: ds)

/-- the first colour slot along the chain that says something: a colour, or `"-"` (terminal default) -/
def firstSpec : List Part → Option Color
  | [] => none
  | .unspec :: r => firstSpec r
  | .dflt :: _ => none
  | .col c :: _ => some c

/-- the modifiers of a chain: those of the far end, overlaid by each description on the way back -/
def chainMods : List Desc → Mods
  | [] => []
  | [d] => d.mods
  | d :: ds => mergeMods (chainMods ds) d.mods

/-- the same by recursion along the parent chain, `fuel` = number of chain links that may be followed -/
def resolveSpec (dm : Id → Option Desc) : Nat → Id → Option Resolved
  | 0, _ => none
  | fuel + 1, id =>
    match dm id with
    | none => none
    | some d =>
      match d.parent with
      | none => some (effOf none d)
      | some p =>
        match resolveSpec dm fuel p with
        | some pr => some (effOf (some pr) d)
        | none => none

/-- the set of descriptions is acyclic: some rank strictly decreases along every reference to a
described id (references to unknown ids are not constrained) -/
def Acyclic (dm : Id → Option Desc) : Prop :=
  ∃ rank : Id → Nat, ∀ id d p, dm id = some d → d.parent = some p → (dm p).isSome → rank p < rank id

/-- what the statement says about `get_color(id)` (as a prefix `f`), given the descriptions `dm`:
an unknown id stands for the default syntax; a resolvable id gets the formatter of its attributes
(no effects at all under `no_color`), any other id is uncoloured -/
def SpecColor (noColor : Bool) (dm : Id → Option Desc) (id : Id) (f : Str) : Prop :=
  let id' := if (dm id).isSome then id else Gen.C14.dfltId
  (∃ r, Resolves dm id' r ∧ mkFmt noColor r = .ok f) ∨ (¬ Resolvable dm id' ∧ f = [])

end ColorsConf
