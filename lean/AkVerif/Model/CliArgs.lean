import AkVerif.Model.CliGraph
/-!
Model of `/repo/ak/cli_tools.py` (C19), second part: one `argparse` parser scanning its arguments
and `ArgParser.parse_args` (multi-command and single-command mode).

`argparse` is modelled as a small specified function over the option table of the parser
(Python 3.12.1, `allow_abbrev=True`, option strings `-x` or `--name`):

* `classify`  — `_parse_optional`: exact option string; `opt=value` with an exact `opt`; for `--…`
                tokens the *abbreviation rule* (every option string that starts with the text before
                `=`: none → unknown, one → that option, several → "ambiguous option" error); for
                `-x…` tokens the option `-x` with the rest as attached text; `-`, `''`, negative
                numbers and everything after the first `--` are plain words.
* `expand`    — the `-xyz` loop of `consume_optional`: options without arguments are peeled off one
                character at a time, the first one that takes an argument gets the rest.
* `runP`      — the alternation of `consume_optional` / `consume_positionals`: the first run of words
                goes to the positional (`nargs` absent, `?`, `*`, `+`; the first `--` is dropped from
                it), later words and unknown options are "unrecognized arguments" (reported at the end,
                after `-h` had its chance), a value option takes the next word, `--color` takes it if
                it is one, options never take `--`.
* `ambiguousIn` — the classification pass that precedes all actions: an ambiguous abbreviation
                anywhere before `--` is an error even if `-h` comes first.

Several positionals in one parser are modelled only when all are `nargs='*'` (`Fail.ood` otherwise).
-/
namespace CliGraph
open Ak

/-! ### namespaces -/

inductive Val where
  | bool (b : Bool)
  | none
  | str (s : Name)
  | nat (n : Nat)
  | int (i : Int)             -- a value converted by `type=int`
  | list (l : List Name)
  deriving DecidableEq, Repr

abbrev Ns := List (Name × Val)

def Ns.get (ns : Ns) (k : Name) : Option Val := (ns.find? (fun p => p.1 == k)).map (·.2)

def Ns.set (ns : Ns) (k : Name) (v : Val) : Ns :=
  if ns.any (fun p => p.1 == k) then ns.map (fun p => if p.1 == k then (k, v) else p)
  else ns ++ [(k, v)]

def Ns.erase (ns : Ns) (k : Name) : Ns := ns.filter (fun p => p.1 != k)

/-- argparse's dest: an explicit `dest=`, else the first `--long` string without the dashes, else the first string without its
dash; `-` inside becomes `_`. A positional's dest is its name. -/
def destOf (o : OptSpec) : Name :=
  match o.dest with
  | some d => d
  | none =>
  if o.kind.isPos then
    match o.strings with
    | s :: _ => s
    | [] => []
  else
    let longs := o.strings.filter (fun s => s.take 2 == ['-', '-'])
    let raw := match longs with
      | s :: _ => s.drop 2
      | [] => match o.strings with
        | s :: _ => s.drop 1
        | [] => []
    raw.map (fun c => if c = '-' then '_' else c)

def defaultOf (o : OptSpec) : Option Val :=
  match o.kind with
  | .flag => some (.bool false)
  | .flagOff => some (.bool true)
  | .const _ => some .none
  | .value => some (match o.dflt with
      | some d => .str d
      | Option.none => .none)
  | .count => some (.nat 0)
  | .optChoice _ d => some (.str d)
  | .help => Option.none
  | .version _ => Option.none                        -- dest and default are SUPPRESS, like help
  | .pos _ => some .none

/-- `parse_known_args`: defaults of all actions, first action of a dest wins -/
def defaults : List OptSpec → Ns → Ns
  | [], ns => ns
  | o :: os, ns =>
    match defaultOf o with
    | Option.none => defaults os ns
    | some v => defaults os (if (ns.get (destOf o)).isSome then ns else ns ++ [(destOf o, v)])

/-! ### tokens -/

def dd : Name := ['-', '-']

inductive Tok where
  | word
  | opt (spec : OptSpec) (single : Bool) (explicit : Option Name)
  | unknown
  | ambiguous
  deriving Repr

def findOpt (tbl : List OptSpec) (s : Name) : Option OptSpec :=
  tbl.find? (fun o => o.isOpt && o.strings.contains s)

/-- the option strings of the parser that start with `nm` (what `--nm` can abbreviate) -/
def extensions (tbl : List OptSpec) (nm : Name) : List Name :=
  (optStrings tbl).filter (fun x => nm.isPrefixOf x)

/-- `-` followed by digits only: a negative number (a word, the tables have no such option) -/
def isNegNum (t : Name) : Bool :=
  match t with
  | '-' :: d :: ds => (d :: ds).all Char.isDigit
  | _ => false

def isSingle (s : Name) : Bool :=
  match s with
  | _ :: c :: _ => c != '-'
  | _ => true

/-- `_parse_optional` (never called for the first `--` nor for what follows it) -/
def classify (tbl : List OptSpec) (t : Name) : Tok :=
  match t with
  | [] => .word
  | c :: r =>
    if c ≠ '-' then .word
    else match findOpt tbl t with
      | some o => .opt o (isSingle t) none
      | none =>
        match r with
        | [] => .word                                    -- a lone "-"
        | c2 :: r2 =>
          let nm := t.takeWhile (· ≠ '=')
          let ex : Option Name := match t.dropWhile (· ≠ '=') with
            | [] => none
            | _ :: e => some e
          match ex, findOpt tbl nm with
          | some e, some o => .opt o (isSingle nm) (some e)
          | _, _ =>
            if c2 = '-' then
              match extensions tbl nm with
              | [] => .unknown
              | [x] =>
                match findOpt tbl x with
                | some o => .opt o false ex
                | none => .unknown                       -- impossible: `x` is an option string of `tbl`
              | _ => .ambiguous
            else
              match findOpt tbl ['-', c2] with
              | some o => .opt o true (some r2)
              | none => if isNegNum t then .word else .unknown

/-- the classification pass: is some token before the first `--` an ambiguous abbreviation? -/
def ambiguousIn (tbl : List OptSpec) : List Name → Bool
  | [] => false
  | t :: rest =>
    if t = dd then false
    else match classify tbl t with
      | .ambiguous => true
      | _ => ambiguousIn tbl rest

/-- does the action take an argument when one is attached (`match_argument(action, 'A') == 1`) -/
def takesArg : Kind → Bool
  | .value => true
  | .optChoice _ _ => true
  | _ => false

/-- the `-xyz` loop: the options peeled off without argument, the last option and its attached text.
`none`: "ignored explicit argument" -/
def expand (tbl : List OptSpec) (o : OptSpec) : Name → Option (List OptSpec × OptSpec × Option Name)
  | [] => if takesArg o.kind then some ([], o, some []) else Option.none
  | c :: rest =>
    if takesArg o.kind then some ([], o, some (c :: rest))
    else
      match findOpt tbl ['-', c] with
      | Option.none => Option.none
      | some o' =>
        match rest with
        | [] => some ([o], o', Option.none)
        | c' :: rest' =>
          match expand tbl o' (c' :: rest') with
          | Option.none => Option.none
          | some r => some (o :: r.1, r.2.1, r.2.2)

/-! ### the scan -/

inductive Run where
  | idle
  | opened (ws : List (Name × Bool))      -- the words of the run; `true` marks the first `--`
  | done
  deriving Repr

structure PS where
  ns : Ns
  seen : List Name       -- first strings of the mutually exclusive actions already taken
  run : Run
  extras : Bool
  afterDD : Bool
  used : List Name := []  -- first strings of the options taken so far (for `required=True`)
  deriving Repr

def posSpecs (tbl : List OptSpec) : List OptSpec := tbl.filter (fun o => !o.isOpt)

def posN (o : OptSpec) : PosN :=
  match o.kind with
  | .pos n => n
  | _ => .star

/-- the modelled shapes: at most one positional, or all of them `nargs='*'` -/
def posOk (tbl : List OptSpec) : Bool :=
  match posSpecs tbl with
  | [] => true
  | [_] => true
  | l => l.all (fun o => posN o == .star)

def takeDash (run : List (Name × Bool)) : List Name × List (Name × Bool) :=
  match run with
  | (w, true) :: r => ([w], r)
  | _ => ([], run)

/-- the part of a run of words that matches the positional's `nargs` pattern (`-*A-*`, `-*A?-*`,
`-*[A-]*`, `-*A[A-]*`) and what is left over; `none`: the pattern does not match -/
def splitRun (n : PosN) (run : List (Name × Bool)) : Option (List Name × List Name) :=
  match n with
  | .star => some (run.map (·.1), [])
  | .plus => if run.any (fun p => !p.2) then some (run.map (·.1), []) else Option.none
  | .one =>
    let d1 := takeDash run
    match d1.2 with
    | (w, false) :: r2 =>
      let d2 := takeDash r2
      some (d1.1 ++ [w] ++ d2.1, d2.2.map (·.1))
    | _ => Option.none
  | .opt =>
    let d1 := takeDash run
    match d1.2 with
    | (w, false) :: r2 =>
      let d2 := takeDash r2
      some (d1.1 ++ [w] ++ d2.1, d2.2.map (·.1))
    | r1 => some (d1.1, r1.map (·.1))

/-- `_get_values` of a positional: the first `--` is removed, then the shape follows `nargs` -/
def posValue (n : PosN) (strs : List Name) : Val :=
  let s := strs.erase dd
  match n with
  | .star => .list s
  | .plus => .list s
  | .one => match s with
    | [w] => .str w
    | _ => .list s
  | .opt => match s with
    | [] => .none
    | [w] => .str w
    | _ => .list s

/-- further `*` positionals get `[]` -/
def assignRest : List OptSpec → Ns → Ns
  | [], ns => ns
  | o :: os, ns => assignRest os (ns.set (destOf o) (.list []))

/-- `consume_positionals` at a run of words: new namespace and "there were extras" -/
def consumeRun (tbl : List OptSpec) (run : List (Name × Bool)) (ns : Ns) : Ns × Bool :=
  match posSpecs tbl with
  | [] => (ns, !run.isEmpty)
  | o :: os =>
    match splitRun (posN o) run with
    | Option.none => (ns, true)
    | some (strs, left) => (assignRest os (ns.set (destOf o) (posValue (posN o) strs)), !left.isEmpty)

def closeRun (tbl : List OptSpec) (ps : PS) : PS :=
  match ps.run with
  | .opened ws =>
    let r := consumeRun tbl ws ps.ns
    { ps with run := .done, ns := r.1, extras := ps.extras || r.2 }
  | _ => ps

def addWord (tbl : List OptSpec) (ps : PS) (w : Name × Bool) : PS :=
  match ps.run with
  | .idle => if (posSpecs tbl).isEmpty then { ps with extras := true } else { ps with run := .opened [w] }
  | .opened ws => { ps with run := .opened (ws ++ [w]) }
  | .done => { ps with extras := true }

/-- end of the arguments: pending positionals match the empty run or are "required" -/
def finishPos (tbl : List OptSpec) (ps : PS) : Except Fail PS :=
  match ps.run with
  | .opened _ => .ok (closeRun tbl ps)
  | .done => .ok ps
  | .idle =>
    match posSpecs tbl with
    | [] => .ok { ps with run := .done }
    | o :: os =>
      match posN o with
      | .one => .error (.exit 2)
      | .plus => .error (.exit 2)
      | n => .ok { ps with run := .done, ns := assignRest os (ps.ns.set (destOf o) (posValue n [])) }

def keyOf (o : OptSpec) : Name :=
  match o.strings with
  | s :: _ => s
  | [] => []

/-- `take_action`'s mutual exclusion test (every use counts as non-default, see the harness) -/
def mutexOk (o : OptSpec) (ps : PS) : Option PS :=
  if o.mutex then
    if ps.seen.any (fun k => k != keyOf o) then Option.none
    else some { ps with seen := keyOf o :: ps.seen }
  else some ps

def setv (o : OptSpec) (v : Val) (ps : PS) : PS :=
  { ps with ns := ps.ns.set (destOf o) v, used := keyOf o :: ps.used }

/-- some `required=True` option of the table was not given -/
def missingReq (tbl : List OptSpec) (used : List Name) : Bool :=
  tbl.any (fun o => o.isOpt && o.required && !used.contains (keyOf o))

/-- end of the arguments: required options, then the pending positionals -/
def finish (tbl : List OptSpec) (ps : PS) : Except Fail PS :=
  if missingReq tbl ps.used then .error (.exit 2) else finishPos tbl ps

/-- an action without argument: `store_true`, `store_false`, `store_const`, `count`, help, version
(the last two end the scan at once: text printed, `SystemExit(0)`) -/
def applyNoArg (o : OptSpec) (ps : PS) : Except Fail PS :=
  match o.kind with
  | .help => .error (.exit 0)
  | .version v => .error (.version v)
  | .flag =>
    match mutexOk o ps with
    | Option.none => .error (.exit 2)
    | some ps => .ok (setv o (.bool true) ps)
  | .flagOff =>
    match mutexOk o ps with
    | Option.none => .error (.exit 2)
    | some ps => .ok (setv o (.bool false) ps)
  | .const v =>
    match mutexOk o ps with
    | Option.none => .error (.exit 2)
    | some ps => .ok (setv o (.str v) ps)
  | .count =>
    match mutexOk o ps with
    | Option.none => .error (.exit 2)
    | some ps =>
      match ps.ns.get (destOf o) with
      | some (.nat n) => .ok (setv o (.nat (n + 1)) ps)
      | some .none => .ok (setv o (.nat 1) ps)
      | Option.none => .ok (setv o (.nat 1) ps)
      | _ => .error (.exc .typeError)
  | _ => .error (.exit 2)

def applyAll : List OptSpec → PS → Except Fail PS
  | [], ps => .ok ps
  | o :: os, ps =>
    match applyNoArg o ps with
    | .error e => .error e
    | .ok ps' => applyAll os ps'

/-- decimal digits with single underscores between digits (`int('1_000')`), value so far, "last was a digit" -/
def natU : List Char → Nat → Bool → Option Nat
  | [], acc, lastDigit => if lastDigit then some acc else Option.none
  | c :: r, acc, lastDigit =>
    if c.isDigit then natU r (acc * 10 + (c.toNat - 48)) true
    else if c = '_' && lastDigit then natU r acc false
    else Option.none

/-- Python's `int(text)` on the protocol's alphabet (ASCII letters, digits, `-`, `=`, `_`): an optional `-`,
then digits with single `_` between them -/
def pyInt (s : Name) : Option Int :=
  match s with
  | '-' :: r => (natU r 0 false).map (fun n => - (n : Int))
  | _ => (natU s 0 false).map (fun n => (n : Int))

/-- `_get_values` of a value option: `type=` conversion, then the `choices=` test; `none`: refused -/
def convArg (c : Conv) (v : Name) : Option Val :=
  match c with
  | .str => some (.str v)
  | .int => (pyInt v).map .int
  | .oneOf l => if l.contains v then some (.str v) else Option.none

/-- an action with its argument -/
def applyArg (o : OptSpec) (v : Name) (ps : PS) : Except Fail PS :=
  match o.kind with
  | .value =>
    match convArg o.conv v with
    | Option.none => .error (.exit 2)
    | some val =>
      match mutexOk o ps with
      | Option.none => .error (.exit 2)
      | some ps => .ok (setv o val ps)
  | .optChoice choices _ =>
    if choices.contains v then
      match mutexOk o ps with
      | Option.none => .error (.exit 2)
      | some ps => .ok (setv o (.str v) ps)
    else .error (.exit 2)
  | _ => .error (.exit 2)

/-- `--color` without a value: `const=None` -/
def applyConst (o : OptSpec) (ps : PS) : Except Fail PS :=
  match mutexOk o ps with
  | Option.none => .error (.exit 2)
  | some ps => .ok (setv o .none ps)

/-- can the token be the argument of an option (an `A` of the pattern; never `--`) -/
def isArgWord (tbl : List OptSpec) (ps : PS) (w : Name) : Bool :=
  if ps.afterDD then true
  else if w = dd then false
  else match classify tbl w with
    | .word => true
    | _ => false

/-- the arguments of the last option of a token are matched before any action of the token runs: a value
option at the end of `-xyz` (or alone) that finds no word behind it is an error even when an option peeled off
before it is help or version (`-ho` → "expected one argument", status 2) -/
def valueMissing (tbl : List OptSpec) (ps : PS) (o : OptSpec) (ex : Option Name) (rest : List Name) : Bool :=
  match ex, o.kind, rest with
  | Option.none, .value, [] => true
  | Option.none, .value, w :: _ => !isArgWord tbl ps w
  | _, _, _ => false

def runP (tbl : List OptSpec) : List Name → PS → Except Fail PS
  | [], ps => finish tbl ps
  | t :: rest, ps =>
    if ps.afterDD then runP tbl rest (addWord tbl ps (t, false))
    else if t = dd then runP tbl rest (addWord tbl { ps with afterDD := true } (t, true))
    else match classify tbl t with
    | .ambiguous => .error (.exit 2)
    | .word => runP tbl rest (addWord tbl ps (t, false))
    | .unknown => runP tbl rest { closeRun tbl ps with extras := true }
    | .opt o0 single ex0 =>
      let ps := closeRun tbl ps
      -- `-xyz`: peel the options without argument
      let parts : Option (List OptSpec × OptSpec × Option Name) :=
        match ex0 with
        | Option.none => some ([], o0, Option.none)
        | some e => if single then expand tbl o0 e else some ([], o0, some e)
      match parts with
      | Option.none => .error (.exit 2)
      | some (pre, o, ex) =>
        if valueMissing tbl ps o ex rest then .error (.exit 2) else
        match applyAll pre ps with
        | .error e => .error e
        | .ok ps =>
          match ex with
          | some v =>
            match applyArg o v ps with
            | .error e => .error e
            | .ok ps => runP tbl rest ps
          | Option.none =>
            match o.kind with
            | .pos _ => .error .ood
            | .value =>
              match rest with
              | [] => .error (.exit 2)
              | w :: rest' =>
                if isArgWord tbl ps w then
                  match applyArg o w ps with
                  | .error e => .error e
                  | .ok ps => runP tbl rest' ps
                else .error (.exit 2)
            | .optChoice _ _ =>
              match rest with
              | [] =>
                match applyConst o ps with
                | .error e => .error e
                | .ok ps => runP tbl [] ps
              | w :: rest' =>
                if isArgWord tbl ps w then
                  match applyArg o w ps with
                  | .error e => .error e
                  | .ok ps => runP tbl rest' ps
                else
                  match applyConst o ps with
                  | .error e => .error e
                  | .ok ps => runP tbl (w :: rest') ps
            | _ =>
              match applyNoArg o ps with
              | .error e => .error e
              | .ok ps => runP tbl rest ps

def PS.init (tbl : List OptSpec) : PS :=
  { ns := defaults tbl [], seen := [], run := .idle, extras := false, afterDD := false }

/-- one parser: `parse_known_args` followed by the "unrecognized arguments" error -/
def runParser (q : Parser) (args : List Name) : Except Fail Ns :=
  if !posOk q.opts then .error .ood
  else if ambiguousIn q.opts args then .error (.exit 2)
  else match runP q.opts args (PS.init q.opts) with
    | .error e => .error e
    | .ok ps => if ps.extras then .error (.exit 2) else .ok ps.ns

/-! ### `ArgParser.parse_args` -/

def truthy : Val → Bool
  | .bool b => b
  | .none => false
  | .str s => !s.isEmpty
  | .nat n => n != 0
  | .int i => i != 0
  | .list l => !l.isEmpty

def noColor : Name := ['n', 'o', '_', 'c', 'o', 'l', 'o', 'r']
def color : Name := ['c', 'o', 'l', 'o', 'r']
def command : Name := ['c', 'o', 'm', 'm', 'a', 'n', 'd']
def noLogFileAttr : Name := ['_', 'n', 'o', '_', 'l', 'o', 'g', '_', 'f', 'i', 'l', 'e']
def helpLong : Name := ['-', '-', 'h', 'e', 'l', 'p']

/-- `if args.no_color: args.color = False` / `del args.no_color` -/
def post (ns : Ns) : Except Fail Ns :=
  match ns.get noColor with
  | Option.none => .error (.exc .attributeError)
  | some v => .ok ((if truthy v then ns.set color (.bool false) else ns).erase noColor)

def firstArgNames (cfg : Cfg) (st : St) : List Name :=
  if cfg.allParsers then names st.parsers else publicNames st.parsers

/-- the "black magic": insert the default command unless the first argument is a help option or a
known name. The list is the caller's list object, `none` stands for Python's `None` (inserted when
there is no public command and no explicit default). -/
def withDefault (cfg : Cfg) (st : St) (argv : List (Option Name)) : List (Option Name) :=
  let keep := match argv with
    | some a :: _ => cfg.helpFirst.contains a || (firstArgNames cfg st).contains a
    | _ => false
  if keep then argv else st.default :: argv

/-- the sub-parser's namespace is copied over the top-level one (`setattr` per attribute) -/
def mergeNs (base sub : Ns) : Ns := sub ++ base.filter (fun p => (sub.get p.1).isNone)

/-- the top-level parser of the multi-command mode: `-h`/`--help`, then the sub-parser chosen by the
first argument among the public commands -/
def dispatch (st : St) (argv : List (Option Name)) : Except Fail Ns :=
  match argv with
  | [] => .error (.exit 2)                     -- unreachable after `withDefault`: command required
  | Option.none :: _ => .error (.exit 2)       -- invalid choice: None
  | some a :: rest =>
    if a = ['-', 'h'] ∨ a = helpLong then .error (.exit 0)
    else match findParser (st.parsers.filter (fun q => !q.internal)) a with
      | Option.none => .error (.exit 2)        -- invalid choice
      | some q =>
        match runParser q (rest.filterMap id) with
        | .error e => .error e
        | .ok sub => .ok (mergeNs [(command, .str a)] sub)

/-- constructor switches that take part in parsing -/
structure Switches where
  noLogFile : Bool
  helpIfNoArgs : Bool
  deriving Repr

inductive Mode where
  | multi (st : St)
  | single (p : Parser)        -- `commands=None`: one plain parser with the standard options
  deriving Repr

structure ArgP where
  sw : Switches
  mode : Mode
  deriving Repr

/-- `if not args and self._help_if_no_args: args.append("--help")` -/
def prepare (sw : Switches) (argv : List (Option Name)) : List (Option Name) :=
  if argv.isEmpty && sw.helpIfNoArgs then [some helpLong] else argv

def afterParse (sw : Switches) (r : Except Fail Ns) : Except Fail Ns :=
  match r with
  | .error e => .error e
  | .ok ns => post (if sw.noLogFile then ns.set noLogFileAttr (.bool true) else ns)

/-- `ArgParser.parse_args(args)`: the result and the caller's list after the call -/
def parseList (cfg : Cfg) (ap : ArgP) (argv : List (Option Name)) : Except Fail Ns × List (Option Name) :=
  let l1 := prepare ap.sw argv
  match ap.mode with
  | .single p => (afterParse ap.sw (runParser p (l1.filterMap id)), l1)
  | .multi st =>
    let l2 := withDefault cfg st l1
    (afterParse ap.sw (dispatch st l2), l2)

/-- `ArgParser.parse_args(args)` as the caller sees it: the result and the caller's sequence after the call.
`parseList` above describes the work on the list the method works on. With `copiesArgs` (6b8603f) that is a
private copy: a tuple is as good as a list and the caller's object stays as it was. Without the copy (older
code) the working list *is* the caller's list, and a tuple raises `AttributeError` as soon as `--help` has to
be appended or the default command inserted. -/
def parseCall (cfg : Cfg) (ap : ArgP) (isTuple : Bool) (argv : List (Option Name)) :
    Except Fail Ns × List (Option Name) :=
  let r := parseList cfg ap argv
  if cfg.copiesArgs then (r.1, argv)
  else if isTuple && r.2 != argv then (.error (.exc .attributeError), argv)
  else r

/-- multi-command mode without switches, the arguments given as strings -/
def parseArgs (cfg : Cfg) (st : St) (argv : List Name) : Except Fail Ns :=
  (parseList cfg { sw := { noLogFile := false, helpIfNoArgs := false }, mode := .multi st } (argv.map some)).1

/-- the single-command `ArgParser(**kwargs)` -/
def buildSingle (cfg : Cfg) (noLog : Bool) : Parser :=
  { name := [], internal := false, deps := [], opts := cfg.stdOf noLog }

/-- `add_argument` of the whole `ArgParser` object; `get_cmd_parser` asserts the multi-command mode -/
def ArgP.addOption (ap : ArgP) (target : Option Name) (s : OptSpec) : Except Fail ArgP :=
  match ap.mode with
  | .multi st =>
    match CliGraph.addOption st target s with
    | .error e => .error e
    | .ok st' => .ok { ap with mode := .multi st' }
  | .single p =>
    match target with
    | some _ => .error (.exc .assertion)
    | Option.none =>
      match p.addOpt s with
      | .error e => .error e
      | .ok p' => .ok { ap with mode := .single p' }

/-- an option added through a group object of one command parser (multi-command mode only, like `get_cmd_parser`) -/
def ArgP.addViaGroup (ap : ArgP) (p : Name) (s : OptSpec) : Except Fail ArgP :=
  match ap.mode with
  | .multi st =>
    match CliGraph.addViaGroup st p s with
    | .error e => .error e
    | .ok st' => .ok { ap with mode := .multi st' }
  | .single _ => .error (.exc .assertion)

end CliGraph
