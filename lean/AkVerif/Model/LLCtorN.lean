import AkVerif.Model.LLGrammar
/-!
The constructor of `LLParser` with the stage `prod_template.verify_grammar(self, nullables, …)`
(`/repo/ak/llparser.py`, between `_get_nullables` and `_make_llone_table`): only `ListProds` overrides
`verify_grammar` — a list template without a delimiter whose item symbol is nullable raises `GrammarError`.

`nonull` = the item symbols of the delimiter-less `ListProds` templates of the dictionary (data, like `Tmpl`).
Kept in its own file so that `Model/LLGrammar.lean` (and the ~50 lemma files above it) stay untouched;
`Lemmas/LLCtorN.lean`: `constructGN nonull T inp = .ok P ↔ constructG T inp = .ok P ∧ no item of nonull is nullable`,
`constructGN [] = constructG`.
-/
namespace LL
open Ak

/-- `for prod_template in …: prod_template.verify_grammar(self, nullables, summary)` -/
def verifyTemplates (nonull : List (List Char)) (nulls : List Sym) : Except Err Unit :=
  if nonull.any (fun n => decide (parseSym n ∈ nulls)) then .error .grammarError else .ok ()

/-- `constructG` with the `verify_grammar` stage of the templates, errors in the order the code raises them -/
def constructGN (nonull : List (List Char)) (T : Tmpl) (inp : CtorIn) : Except Err Parser := do
  let terms0 := tokenNames inp
  if terms0.any (fun t => hasDunder t.name) then .error .assertion else
  let skip ← skipSet inp terms0
  let U ← createProdsT T 0 inp.prods []
  let (G, suffix) ← factorize terms0 U inp.smart
  let terms := sadd terms0 endSym
  let start := parseSym inp.start
  verifyPart1 terms start G
  let nulls ← nullables G
  verifyTemplates nonull nulls
  let first ← firstSets terms nulls G
  let follow ← followSets terms nulls first G start endSym
  let table ← mkTable terms nulls first follow G
  recCheck G terms nulls (sortedKeys G)
  .ok { terminals := terms, skip := skip, start := start, syn := inp.syn, kw := inp.kw,
        userProds := U, prods := G, suffix := suffix, nullables := nulls, first := first,
        follow := follow, table := table }

end LL
