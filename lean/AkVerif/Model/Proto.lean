import AkVerif.Model.Common
/-!
Line protocol shared by all drivers (DESIGN.md appendix C): one request per line on stdin, one
reply per line on stdout, ASCII only. Strings travel as comma-separated code points (`-` = empty).
-/
namespace Ak.Proto

def splitWs (s : String) : List String :=
  (s.splitOn " ").filter (· ≠ "")

/-- `"104,105"` → `['h','i']`; `"-"` → `[]` -/
def parseCps (s : String) : Option (List Char) :=
  if s = "-" then some [] else
  (s.splitOn ",").mapM fun t => t.toNat?.map Char.ofNat

def showCps (cs : List Char) : String :=
  if cs.isEmpty then "-" else ",".intercalate (cs.map fun c => toString c.toNat)

def parseNatList (s : String) : Option (List Nat) :=
  if s = "-" then some [] else (s.splitOn ",").mapM (·.toNat?)

def showNatList (l : List Nat) : String :=
  if l.isEmpty then "-" else ",".intercalate (l.map toString)

def parseInt (s : String) : Option Int :=
  if s.startsWith "-" then (s.drop 1).toNat?.map fun n => - (n : Int)
  else s.toNat?.map fun n => (n : Int)

def showExcept {α} (f : α → String) : Except Err α → String
  | .ok a => "ok " ++ f a
  | .error e => "err " ++ e.name

/-- stateless driver loop -/
partial def loop (h : IO.FS.Stream) (out : IO.FS.Stream) (handle : String → String) : IO Unit := do
  let line ← h.getLine
  if line.isEmpty then out.flush; return ()
  let l := line.trimAsciiEnd.toString
  out.putStrLn (handle l)
  loop h out handle

/-- stateful driver loop -/
partial def loopS {σ} (h : IO.FS.Stream) (out : IO.FS.Stream)
    (handle : σ → String → σ × String) (s : σ) : IO Unit := do
  let line ← h.getLine
  if line.isEmpty then out.flush; return ()
  let l := line.trimAsciiEnd.toString
  let (s', r) := handle s l
  out.putStrLn r
  loopS h out handle s'

def run (handle : String → String) : IO Unit := do
  loop (← IO.getStdin) (← IO.getStdout) handle

def runS {σ} (handle : σ → String → σ × String) (init : σ) : IO Unit := do
  loopS (← IO.getStdin) (← IO.getStdout) handle init

end Ak.Proto
