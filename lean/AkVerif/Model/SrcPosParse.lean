import AkVerif.Model.SrcPos
import AkVerif.Model.LLParse
/-!
Model of the *positions* computed by `LLParser.parse` (C04), on top of the LL parse model
(`Model/LLParse.lean`, C01): the same stack machine, the same roll-back, but every tree element carries
the span the code gives it at the moment the element is built.

* `PTok`, `PTree`   — `_Token` / `TElement` with `start_pos`, `end_pos`.
* `stepP`           — one iteration of the `while True:` loop, exactly `LL.step` plus
    - terminal matched: `TElement(cur_symbol, next_token.value, start_pos=next_token.start_pos, …)`;
    - empty production completed: `cur_src_pos = tokens[top.cur_token_pos].start_pos` (read from the
      frame's *current* token position — also after a roll-back);
    - other production completed: `TElement.__init__` (start of the first value), the suffix splice, then
      the `last_matched` code (end of the last child with `start != end`, else the start);
    - roll-back: `longest_stack` is kept as the (start, cur) of the top frame of the farthest failure; when
      no alternative is left: `ParsingError.src_pos = tokens[top.start_token_pos].start_pos`.
* `runP`            — the loop with fuel.
* `erase…`          — forgetting the positions gives the frames / trees of `LL.step` (`C04.parse_is_ll_run`).
* `PTree.shape`, `PTree.preorder` — shape of a tree as `SrcPos.Tree`, spans of its nodes in pre-order.
-/
namespace SrcPos
open Ak

variable {σ : Type} [DecidableEq σ]

structure PTok (σ : Type) where
  name : σ
  val : List Char
  sp : Span

inductive PTree (σ : Type) where
  | leaf (name : σ) (val : List Char) (sp : Span)
  | node (name : σ) (children : List (PTree σ)) (sp : Span)

def PTree.span : PTree σ → Span
  | .leaf _ _ sp => sp
  | .node _ _ sp => sp

def PTree.children : PTree σ → List (PTree σ)
  | .leaf _ _ _ => []
  | .node _ cs _ => cs

mutual
def PTree.erase : PTree σ → LL.Tree σ
  | .leaf n v _ => .leaf n v
  | .node n cs _ => .node n (PTree.eraseList cs)
def PTree.eraseList : List (PTree σ) → List (LL.Tree σ)
  | [] => []
  | t :: ts => t.erase :: PTree.eraseList ts
end

mutual
/-- `tok` for a leaf, `nul` for an element without children (`value is None`), `node` otherwise -/
def PTree.shape : PTree σ → Tree
  | .leaf _ _ _ => .tok
  | .node _ [] _ => .nul
  | .node _ (c :: cs) _ => .node (.cons c.shape (PTree.shapeF cs))
def PTree.shapeF : List (PTree σ) → Forest
  | [] => .nil
  | t :: ts => .cons t.shape (PTree.shapeF ts)
end

mutual
def PTree.preorder : PTree σ → List Span
  | .leaf _ _ sp => [sp]
  | .node _ cs sp => sp :: PTree.preorderList cs
def PTree.preorderList : List (PTree σ) → List Span
  | [] => []
  | t :: ts => t.preorder ++ PTree.preorderList ts
end

structure PFrame (σ : Type) where
  sym : σ
  start : Nat
  cur : Nat
  alts : List (List σ)
  idx : Nat
  vals : List (PTree σ)

def PTok.erase (t : PTok σ) : LL.Tok σ := ⟨t.name, t.val⟩

def PFrame.erase (f : PFrame σ) : LL.Frame σ :=
  { sym := f.sym, start := f.start, cur := f.cur, alts := f.alts, idx := f.idx,
    vals := PTree.eraseList f.vals }

/-- `longest_stack[-1]`: (start_token_pos, cur_token_pos) of the top frame at the farthest failure -/
abbrev Far := Option (Nat × Nat)

inductive PRes (σ : Type) where
  | cont (st : List (PFrame σ)) (far : Far)
  | done (t : PTree σ)
  | fail (p : Pos)
  | stuck

/-- roll-back, as `LL.backtrack` -/
def backtrackP : List (PFrame σ) → Option (List (PFrame σ))
  | [] => none
  | f :: rest =>
    if f.idx + 1 < f.alts.length then
      some ({ f with vals := [], cur := f.start, idx := f.idx + 1 } :: rest)
    else backtrackP rest

/-- as `LL.splice` -/
def spliceP (G : LL.Cfg σ) (prod : List σ) (vals : List (PTree σ)) : List (PTree σ) :=
  match prod.getLast?, vals.getLast? with
  | some s, some v => if G.isSuffix s then vals.dropLast ++ v.children else vals
  | _, _ => vals

/-- the element built when production `prod` of `sym` is complete; `here` = `tokens[top.cur_token_pos]`
(looked at only for the empty production) -/
def mkNode (G : LL.Cfg σ) (sym : σ) (prod : List σ) (vals : List (PTree σ)) (here : Option (PTok σ)) :
    Option (PTree σ) :=
  match vals with
  | [] =>
    match here with
    | some tk => some (.node sym [] ⟨tk.sp.s, tk.sp.s⟩)
    | none => none
  | v0 :: _ =>
    let cs := spliceP G prod vals
    let e := match lastMatchedEnd (cs.map PTree.span) with
      | some p => p
      | none => v0.span.s
    some (.node sym cs ⟨v0.span.s, e⟩)

/-- `if not longest_stack or longest_stack[-1].cur_token_pos < parse_stack[-1].cur_token_pos: longest_stack = …` -/
def nextFar (far : Far) (top : PFrame σ) : Nat × Nat :=
  match far with
  | none => (top.start, top.cur)
  | some (s, c) => if c < top.cur then (top.start, top.cur) else (s, c)

/-- the failure branch: remember the farthest failure, roll back or give up -/
def failP (toks : List (PTok σ)) (far : Far) (top : PFrame σ) (rest : List (PFrame σ)) : PRes σ :=
  match backtrackP (top :: rest) with
  | some st => .cont st (some (nextFar far top))
  | none =>
    match toks[(nextFar far top).1]? with
    | some tk => .fail tk.sp.s
    | none => .stuck

def stepP (G : LL.Cfg σ) (toks : List (PTok σ)) (far : Far) : List (PFrame σ) → PRes σ
  | [] => .stuck
  | top :: rest =>
    match top.alts[top.idx]? with
    | none => .stuck
    | some prod =>
      if top.vals.length = prod.length then
        match mkNode G top.sym prod top.vals toks[top.cur]? with
        | none => .stuck
        | some t =>
          match rest with
          | [] => match t.children.head? with
                  | some r => .done r
                  | none => .stuck
          | parent :: rest' =>
            .cont ({ parent with vals := parent.vals ++ [t], cur := top.cur } :: rest') far
      else
        match prod[top.vals.length]?, toks[top.cur]? with
        | some c, some tok =>
          if G.isTerm c then
            if tok.name = c then
              .cont ({ top with vals := top.vals ++ [PTree.leaf c tok.val tok.sp], cur := top.cur + 1 } :: rest) far
            else failP toks far top rest
          else
            match G.table c tok.name with
            | some alts =>
              .cont ({ sym := c, start := top.cur, cur := top.cur, alts := alts, idx := 0, vals := [] }
                      :: top :: rest) far
            | none => failP toks far top rest
        | _, _ => .stuck

inductive ParseErr where
  | parsing (p : Pos)          -- ParsingError with src_pos.coords = p
  | py (e : Err)
  deriving DecidableEq, Repr

def runP (G : LL.Cfg σ) (toks : List (PTok σ)) : Nat → Far → List (PFrame σ) → Except ParseErr (PTree σ)
  | 0, _, _ => .error (.py .outOfFuel)
  | fuel + 1, far, st =>
    match stepP G toks far st with
    | .cont st' far' => runP G toks fuel far' st'
    | .done t => .ok t
    | .fail p => .error (.parsing p)
    | .stuck => .error (.py .indexError)

def initStackP (init start endS : σ) : List (PFrame σ) :=
  [{ sym := init, start := 0, cur := 0, alts := [[start, endS]], idx := 0, vals := [] }]

end SrcPos
