import AkVerif.Model.Common
import AkVerif.Gen.C15
/-!
Model of the filter machinery of `/repo/ak/mtd_sql.py` (C15).

What the caller writes                      `Cond`, `Call`
`SqlFilterCondition.make` + constructors    `mkLeaf`, `mkCond`, `mkConds`, `mkKw`   (→ `NCond`)
`make_text_update_values`                   `toWhere` (→ `Where` + the appended values) and `render`
                                            (text of a `Where`, clause tables from `Gen.C15`)
`SqlMethod._execute`                        `prepare` (filters, statement text, `cursor.execute` arguments)
`list` / `one` / `one_or_none`              `run`, `finish`

The code produces the text directly; the model factors it as `render ∘ toWhere` so that the tiny
AST `Where` can be given a meaning: `semAnd` is SQL's three-valued evaluation of the rendered
conjunction on one row, with SQLite's rules for untyped columns (storage-class order
NULL < integer < text, no affinity conversion, BINARY collation, `LIKE` ASCII-case-insensitive,
integers rendered in decimal for `LIKE`).  That SQLite evaluates the text `render w` as `semW w`
says is *modelled, not verified*; the correspondence run executes the real statement on a real
in-memory SQLite and compares the returned rows.

`Fail.bind` is the refusal of the `sqlite3` module to bind a list / tuple / set as one parameter
(`ProgrammingError`), again library behaviour that is modelled, not verified.

Static conditions (plain strings, `field_name is None`) are opaque boolean column expressions:
their value on a row is what SQLite computes for the caller's text (supplied by the harness).

Out of the model: the inside of a static condition and of an ORDER BY key expression (both the
caller's own SQL: their value per row is supplied), column affinity, floats,
integers outside 64 bits, NUL characters, non-ASCII operator spellings (`str.upper` is modelled
for ASCII only), `GROUP BY` semantics (the text is assembled, rows are never computed with it).
-/
namespace SqlFilter
open Ak

abbrev Str := List Char

/-! ## values and what the caller writes -/

/-- a Python value that sqlite3 can bind / a cell of an untyped column: `None`, `int`, `str`, bytes;
or an object of another class that the database driver itself adapts when it binds it -/
inductive Value where
  | null
  | int (i : Int)
  | text (s : Str)
  /-- `bytes` / `bytearray` / `memoryview`: one value for SQL (a BLOB), never a list of its bytes -/
  | blob (bytes : List Nat)
  /-- an operand that is none of the above and that the driver adapts on binding: a
  `datetime.datetime`, a `datetime.date`, an object with `__conform__`, an object of a class with a
  registered adapter (`cls` says which; no meaning in the model beyond being kept). `img` is the text
  the driver writes for it (`datetime` → `isoformat(" ")`), i.e. what the database compares.
  Never a cell of a table. The code must hand over the object itself. -/
  | obj (cls : Nat) (img : Str)
  deriving DecidableEq, Repr, Inhabited

/-- what the database sees when the value is bound: the driver's image of an adapted object, the
value itself otherwise (library behaviour: modelled, not verified) -/
def Value.db : Value → Value
  | .obj _ s => .text s
  | v => v

/-- the value part of a condition: one object, a list/tuple, or a set (in its iteration order) -/
inductive Arg where
  | scalar (v : Value)
  | list (vs : List Value)
  | set (vs : List Value)
  deriving DecidableEq, Repr, Inhabited

/-- one positional argument of `SqlMethod.list` / one operand of `SqlMethod._or` -/
inductive Cond where
  /-- `(field, op, value)` -/
  | triple (field op : Str) (arg : Arg)
  /-- `(field, value)` -/
  | pair (field : Str) (arg : Arg)
  /-- `(field, op, value)` whose `op` is not a `str` (`op.upper()` → `AttributeError`) -/
  | badOp (field : Str) (arg : Arg)
  /-- a list/tuple of another length, or an object that is neither str, list, tuple nor a
  condition (for instance `None` inside an OR group): `ValueError` in `make` -/
  | badShape
  /-- `SqlMethod._or(*cs, **kw)` -/
  | or (cs : List Cond) (kw : List (Str × Arg))
  /-- a static condition: a plain string, SQL written by the caller (`"t1.id = t2.parent_id"`) -/
  | raw (text : Str)
  deriving Repr, Inhabited

/-- `method.list(conn, *args, **kwargs)`; a `none` argument is Python's `None` -/
structure Call where
  args : List (Option Cond)
  kwargs : List (Str × Arg)
  deriving Repr, Inhabited

/-- a Python exception of the code, or the sqlite3 module refusing to bind a parameter -/
inductive Fail where
  | py (e : Err)
  | bind
  /-- the statement does not compile (unknown column); never produced by `prepare` -/
  | sql
  deriving DecidableEq, Repr, Inhabited

def Fail.name : Fail → String
  | .py e => e.name
  | .bind => "ProgrammingError"
  | .sql => "OperationalError"

/-! ## strings -/

/-- `str.upper()` on ASCII -/
def upper (s : Str) : Str := s.map Char.toUpper

/-- Python's `<` on `str` (code points, lexicographic); also SQLite's BINARY collation -/
def strLt : Str → Str → Bool
  | [], [] => false
  | [], _ :: _ => true
  | _ :: _, [] => false
  | a :: as, b :: bs =>
    if a.toNat < b.toNat then true else if b.toNat < a.toNat then false else strLt as bs

/-- `sep.join(parts)` -/
def joinSep (sep : Str) : List Str → Str
  | [] => []
  | [p] => p
  | p :: q :: ps => p ++ sep ++ joinSep sep (q :: ps)

def lookup (tbl : List (Str × Str)) (k : Str) : Option Str :=
  match tbl with
  | [] => none
  | (k', v) :: rest => if k' = k then some v else lookup rest k

/-- `sorted(kwargs.items())`: keys are distinct, so only the keys are ever compared -/
def insertKw (x : Str × Arg) : List (Str × Arg) → List (Str × Arg)
  | [] => [x]
  | y :: ys => if strLt x.1 y.1 then x :: y :: ys else y :: insertKw x ys

def sortKw : List (Str × Arg) → List (Str × Arg)
  | [] => []
  | x :: xs => insertKw x (sortKw xs)

/-! ## operations -/

inductive CmpOp where
  | eq | ne | gt | lt | ge | le
  deriving DecidableEq, Repr, Inhabited

/-- the twelve supported operations (`SUPPORTED_OPS`) -/
inductive Op where
  | cmp (c : CmpOp)
  | isIn (neg : Bool)
  | isNull (neg : Bool)
  | like (neg : Bool)
  deriving DecidableEq, Repr, Inhabited

/-- spelling of the operation = key of the clause tables -/
def Op.key : Op → Str
  | .cmp .eq => "=".toList
  | .cmp .ne => "!=".toList
  | .cmp .gt => ">".toList
  | .cmp .lt => "<".toList
  | .cmp .ge => ">=".toList
  | .cmp .le => "<=".toList
  | .isIn false => "IN".toList
  | .isIn true => "NOT IN".toList
  | .isNull false => "IS NULL".toList
  | .isNull true => "IS NOT NULL".toList
  | .like false => "LIKE".toList
  | .like true => "NOT LIKE".toList

def Op.all : List Op :=
  [.cmp .eq, .cmp .ne, .isIn false, .isIn true, .isNull false, .isNull true, .like false, .like true,
   .cmp .gt, .cmp .lt, .cmp .ge, .cmp .le]

/-- which supported operation a (already upper-cased) string spells -/
def classify (s : Str) : Option Op := Op.all.find? (fun o => o.key = s)

/-! ## construction of the filter objects -/

/-- a `SqlFieldValCondition` after its constructor has normalised the operation -/
inductive Leaf where
  /-- `=`, `!=` (value is not `None`, not a list/tuple), `>`, `<`, `>=`, `<=` (any object) -/
  | cmp (f : Str) (c : CmpOp) (a : Arg)
  /-- `IN` / `NOT IN` with a list, tuple or set -/
  | inl (f : Str) (neg : Bool) (vs : List Value)
  /-- `IS NULL` / `IS NOT NULL` -/
  | null (f : Str) (neg : Bool)
  /-- `LIKE` / `NOT LIKE` with a `str` -/
  | like (f : Str) (neg : Bool) (pat : Str)
  /-- static condition (`field_name is None`): the caller's text -/
  | raw (text : Str)
  deriving Repr, Inhabited

/-- `SqlFieldValCondition.__init__` (field name not `None`) -/
def mkLeaf (f op : Str) (a : Arg) : Except Fail Leaf :=
  match classify (upper op) with
  | none => .error (.py .valueError)
  | some (.cmp .eq) =>
    match a with
    | .scalar .null => .ok (.null f false)
    | .list vs => .ok (.inl f false vs)
    | _ => .ok (.cmp f .eq a)
  | some (.cmp .ne) =>
    match a with
    | .scalar .null => .ok (.null f true)
    | .list vs => .ok (.inl f true vs)
    | _ => .ok (.cmp f .ne a)
  | some (.cmp c) => .ok (.cmp f c a)
  | some (.isIn neg) =>
    match a with
    | .list vs => .ok (.inl f neg vs)
    | .set vs => .ok (.inl f neg vs)
    | .scalar _ => .error (.py .valueError)
  | some (.isNull neg) =>
    match a with
    | .scalar .null => .ok (.null f neg)
    | _ => .error (.py .valueError)
  | some (.like neg) =>
    match a with
    | .scalar (.text p) => .ok (.like f neg p)
    | _ => .error (.py .valueError)

inductive NCond where
  | leaf (l : Leaf)
  | or (cs : List NCond)
  deriving Repr, Inhabited

/-- the operation of a 2-tuple `(field, value)` and of a keyword filter -/
def opEq : Str := "=".toList

/-- keyword filters: each `name=value` is the 2-tuple `(name, value)` -/
def mkKw : List (Str × Arg) → Except Fail (List NCond)
  | [] => .ok []
  | (k, a) :: rest => do
    let l ← mkLeaf k opEq a
    let ls ← mkKw rest
    pure (.leaf l :: ls)

mutual
/-- `SqlFilterCondition.make` -/
def mkCond : Cond → Except Fail NCond
  | .triple f op a => do let l ← mkLeaf f op a; pure (.leaf l)
  | .pair f a => do let l ← mkLeaf f opEq a; pure (.leaf l)
  | .badOp _ _ => .error (.py .attributeError)
  | .badShape => .error (.py .valueError)
  | .raw t => .ok (.leaf (.raw t))
  | .or cs kw => do
    let xs ← mkConds cs
    let ys ← mkKw (sortKw kw)
    pure (.or (xs ++ ys))
/-- `[SqlFilterCondition.make(arg) for arg in args]`: the first failure wins -/
def mkConds : List Cond → Except Fail (List NCond)
  | [] => .ok []
  | c :: cs => do
    let x ← mkCond c
    let xs ← mkConds cs
    pure (x :: xs)
end

/-! ## the WHERE clause: a tiny AST, its text and its meaning -/

inductive Where where
  /-- `f <op> ?` -/
  | cmp (f : Str) (c : CmpOp)
  /-- `f [NOT] IN (?, …, ?)` with `n` placeholders -/
  | inList (f : Str) (neg : Bool) (n : Nat)
  /-- `f IS [NOT] NULL` -/
  | isNull (f : Str) (neg : Bool)
  /-- `f [NOT] LIKE ?` -/
  | like (f : Str) (neg : Bool)
  /-- `0` / `1` (empty `IN` / `NOT IN`) -/
  | const (b : Bool)
  /-- `FALSE` (empty OR group) -/
  | false
  /-- `(w1 OR … OR wn)` -/
  | or (ws : List Where)
  /-- the caller's own SQL, an opaque boolean expression -/
  | raw (text : Str)
  deriving Repr, Inhabited

/-- `SqlFieldValCondition.make_text_update_values`: the clause and the objects appended to the
parameter list -/
def leafWhere : Leaf → Where × List Arg
  | .cmp f c a => (.cmp f c, [a])
  | .inl f neg vs =>
    if vs.isEmpty then (.const neg, []) else (.inList f neg vs.length, vs.map .scalar)
  | .null f neg => (.isNull f neg, [])
  | .like f neg p => (.like f neg, [.scalar (.text p)])
  | .raw t => (.raw t, [])

mutual
def toWhere : NCond → Where × List Arg
  | .leaf l => leafWhere l
  | .or [] => (.false, [])
  | .or (c :: cs) => let r := toWheres (c :: cs); (.or r.1, r.2)
def toWheres : List NCond → List Where × List Arg
  | [] => ([], [])
  | c :: cs => let r := toWhere c; let rs := toWheres cs; (r.1 :: rs.1, r.2 ++ rs.2)
end

mutual
/-- the column expressions a clause mentions -/
def whereFields : Where → List Str
  | .cmp f _ => [f]
  | .inList f _ _ => [f]
  | .isNull f _ => [f]
  | .like f _ => [f]
  | .const _ => []
  | .false => []
  | .raw t => [t]
  | .or ws => wheresFields ws
def wheresFields : List Where → List Str
  | [] => []
  | w :: ws => whereFields w ++ wheresFields ws
end

mutual
/-- the number of parameters a clause consumes -/
def slots : Where → Nat
  | .cmp _ _ => 1
  | .inList _ _ n => n
  | .isNull _ _ => 0
  | .like _ _ => 1
  | .const _ => 0
  | .false => 0
  | .raw _ => 0
  | .or ws => slotsL ws
def slotsL : List Where → Nat
  | [] => 0
  | w :: ws => slots w + slotsL ws
end

mutual
/-- the column expressions the caller wrote -/
def condFields : Cond → List Str
  | .triple f _ _ => [f]
  | .pair f _ => [f]
  | .badOp f _ => [f]
  | .badShape => []
  | .raw t => [t]
  | .or cs kw => condsFields cs ++ kw.map (·.1)
def condsFields : List Cond → List Str
  | [] => []
  | c :: cs => condFields c ++ condsFields cs
end

/-- `_order_by` / `_as_scalars` (the names are read from `_execute` by the translator): the only
keyword arguments that are not filters -/
def isOptionKey (k : Str) : Bool := k = Gen.C15.orderKey || k = Gen.C15.scalarsKey

/-- the keyword arguments left after `kwargs.pop('_order_by', …)`, `kwargs.pop('_as_scalars', …)` -/
def filterKwargs (kw : List (Str × Arg)) : List (Str × Arg) := kw.filter fun ka => !isOptionKey ka.1

/-- `kwargs[k]` if present (keyword names are distinct) -/
def lookupKw (k : Str) : List (Str × Arg) → Option Arg
  | [] => none
  | (k', a) :: rest => if k' = k then some a else lookupKw k rest

def Call.fields (c : Call) : List Str :=
  condsFields (c.args.filterMap id) ++ (filterKwargs c.kwargs).map (·.1)

/-- the character by which a placeholder is recognised in the text: `?`, or the `%` of `%s` -/
def marker (pct : Bool) : Char := if pct then '%' else '?'

/-- `_SQL_CLAUSES[placeholders_type]`; `pct = true` is the `%s` flavour -/
def clauses (pct : Bool) : List (Str × Str) := if pct then Gen.C15.clausesP else Gen.C15.clausesQ

/-- `sql_clauses[key]` (`KeyError` when the table has no such key) -/
def clause (pct : Bool) (key : Str) : Except Fail Str :=
  match lookup (clauses pct) key with
  | some c => .ok c
  | none => .error (.py .keyError)

/-- key of the placeholder itself in the clause tables -/
def phKey : Str := "PLACEHOLDER".toList

mutual
def render (pct : Bool) : Where → Except Fail Str
  | .cmp f c => do let cl ← clause pct (Op.cmp c).key; pure (f ++ cl)
  | .inList f neg n => do
    let cl ← clause pct (Op.isIn neg).key
    let ph ← clause pct phKey
    pure (f ++ cl ++ Gen.C15.listOpen ++ joinSep Gen.C15.listSep (List.replicate n ph) ++ Gen.C15.listClose)
  | .isNull f neg => do let cl ← clause pct (Op.isNull neg).key; pure (f ++ cl)
  | .like f neg => do let cl ← clause pct (Op.like neg).key; pure (f ++ cl)
  | .const b => .ok (if b then Gen.C15.emptyNotIn else Gen.C15.emptyIn)
  | .false => .ok Gen.C15.emptyOr
  | .raw t => .ok (Gen.C15.rawOpen ++ t ++ Gen.C15.rawClose)
  | .or ws => do
    let ts ← renders pct ws
    pure (Gen.C15.orOpen ++ joinSep Gen.C15.orSep ts ++ Gen.C15.orClose)
def renders (pct : Bool) : List Where → Except Fail (List Str)
  | [] => .ok []
  | w :: ws => do
    let t ← render pct w
    let ts ← renders pct ws
    pure (t :: ts)
end

/-- the fixed parts of a `SqlMethod`: `sql_select_from`, `group_by`, `default_order_by` -/
structure Stmt where
  selectFrom : Str
  groupBy : Option Str
  orderBy : Option Str
  deriving Repr, Inhabited

/-- `if filters: sql += " WHERE " + " AND ".join(...)` -/
def wherePart (ts : List Str) : Str :=
  if ts.isEmpty then [] else Gen.C15.wherePfx ++ joinSep Gen.C15.andSep ts

/-- `if self.group_by: sql += " GROUP BY " + self.group_by` (`None` and `""` are both false) -/
def groupPart (st : Stmt) : Str :=
  match st.groupBy with
  | some g => if g.isEmpty then [] else Gen.C15.groupPfx ++ g
  | none => []

/-- `if order_by_clause is not None: sql += " ORDER BY " + order_by_clause` -/
def orderPart (st : Stmt) : Str :=
  match st.orderBy with
  | some o => Gen.C15.orderPfx ++ o
  | none => []

/-- statement assembly in `_execute` -/
def sqlText (pct : Bool) (st : Stmt) (ws : List Where) : Except Fail Str := do
  let ts ← renders pct ws
  pure (st.selectFrom ++ wherePart ts ++ groupPart st ++ orderPart st)

/-- sqlite3 binds `None`, `int`, `str`; a list, tuple or set is refused -/
def bindAll : List Arg → Except Fail (List Value)
  | [] => .ok []
  | .scalar v :: as => do let vs ← bindAll as; pure (v :: vs)
  | _ :: _ => .error .bind

/-- what reaches `cursor.execute` -/
structure Prepared where
  conj : List Where
  text : Str
  params : List Value
  deriving Repr, Inhabited

/-- the filter objects of a call: positional arguments that are not `None`, then the keyword
arguments — all but the two options — sorted by name -/
def filters (call : Call) : Except Fail (List NCond) := do
  let xs ← mkConds (call.args.filterMap id)
  let ys ← mkKw (sortKw (filterKwargs call.kwargs))
  pure (xs ++ ys)

/-- `order_by_clause = kwargs.pop('_order_by', self.default_order_by)`, used as
`" ORDER BY " + order_by_clause` unless it is `None` (so `_order_by=None` cancels the default;
anything but a `str` is a `TypeError` of the concatenation) -/
def orderClause (st : Stmt) (kw : List (Str × Arg)) : Except Fail (Option Str) :=
  match lookupKw Gen.C15.orderKey kw with
  | none => .ok st.orderBy
  | some (.scalar .null) => .ok none
  | some (.scalar (.text s)) => .ok (some s)
  | some _ => .error (.py .typeError)

/-- `SqlMethod._execute` up to and including the binding of the parameters -/
def prepare (pct : Bool) (st : Stmt) (call : Call) : Except Fail Prepared := do
  let fs ← filters call
  let r := toWheres fs
  let ord ← orderClause st call.kwargs
  let text ← sqlText pct { st with orderBy := ord } r.1
  let params ← bindAll r.2
  pure { conj := r.1, text := text, params := params }

/-- the caller's own texts carry no placeholder mark (checked by the driver on every request;
hypothesis of `C15.placeholders`) -/
def cleanStr (pct : Bool) (s : Str) : Bool := s.count (marker pct) == 0

def clean (pct : Bool) (st : Stmt) (call : Call) : Bool :=
  cleanStr pct st.selectFrom &&
  (match st.groupBy with | some g => cleanStr pct g | none => true) &&
  call.fields.all (cleanStr pct) &&
  (match orderClause st call.kwargs with | .ok (some o) => cleanStr pct o | _ => true)

/-! ## three-valued meaning -/

inductive Tri where
  | tt | ff | unk
  deriving DecidableEq, Repr, Inhabited

def Tri.ofBool (b : Bool) : Tri := if b then .tt else .ff

def Tri.and : Tri → Tri → Tri
  | .ff, _ => .ff
  | _, .ff => .ff
  | .tt, .tt => .tt
  | _, _ => .unk

def Tri.or : Tri → Tri → Tri
  | .tt, _ => .tt
  | _, .tt => .tt
  | .ff, .ff => .ff
  | _, _ => .unk

def Tri.not : Tri → Tri
  | .tt => .ff
  | .ff => .tt
  | .unk => .unk

def Tri.negIf (neg : Bool) (t : Tri) : Tri := if neg then t.not else t

/-- one row as a statement sees it: column expression (as written in the conditions; a static
condition is a column expression too — its value is what SQLite computes for it) ↦ cell.
Statements that mention an unknown column do not compile and are outside the model (`selectRows`
answers `none` for them). -/
abbrev Row := Str → Value

/-- the cells of one table row, by column expression -/
abbrev Cells := List (Str × Value)

def Cells.get? : Cells → Str → Option Value
  | [], _ => none
  | (k, v) :: rest, f => if k = f then some v else Cells.get? rest f

/-- `memcmp` order of byte strings -/
def natsLt : List Nat → List Nat → Bool
  | [], [] => false
  | [], _ :: _ => true
  | _ :: _, [] => false
  | a :: as, b :: bs => if a < b then true else if b < a then false else natsLt as bs

/-- SQLite's order of values (used by comparisons on non-NULL values and by ORDER BY):
NULL < integers (numeric) < texts (BINARY) < blobs (memcmp). An adapted object is never stored and
never compared as such (`cmp3` compares its image, `Value.db`); it is placed after the blobs, by
class and image, only so that the order stays total on the whole type. -/
def vLt : Value → Value → Bool
  | .null, .null => false
  | .null, _ => true
  | _, .null => false
  | .obj c a, .obj d b => decide (c < d) || (decide (c = d) && strLt a b)
  | .obj _ _, _ => false
  | _, .obj _ _ => true
  | .int a, .int b => decide (a < b)
  | .int _, .text _ => true
  | .text _, .int _ => false
  | .text a, .text b => strLt a b
  | .blob a, .blob b => natsLt a b
  | .blob _, _ => false
  | _, .blob _ => true

/-- `x <op> y` on stored values -/
def cmpDb (c : CmpOp) (x y : Value) : Tri :=
  match x, y with
  | .null, _ => .unk
  | _, .null => .unk
  | _, _ =>
    .ofBool (match c with
      | .eq => decide (x = y)
      | .ne => !decide (x = y)
      | .lt => vLt x y
      | .gt => vLt y x
      | .le => !vLt y x
      | .ge => !vLt x y)

/-- `x <op> y` as the database evaluates it: an adapted object takes part as its image -/
def cmp3 (c : CmpOp) (x y : Value) : Tri := cmpDb c x.db y.db

/-- `x IN (v1, …, vn)` = `x = v1 OR … OR x = vn`; the empty list gives false -/
def inSem (x : Value) : List Value → Tri
  | [] => .ff
  | v :: vs => (cmp3 .eq x v).or (inSem x vs)

def isNullSem (x : Value) : Tri :=
  match x with
  | .null => .tt
  | _ => .ff

/-- does `f` hold for some suffix of the string -/
def anySuffix (f : Str → Bool) : Str → Bool
  | [] => f []
  | c :: s => f (c :: s) || anySuffix f s

/-- SQLite's default `LIKE`: `%` any sequence, `_` any one character, ASCII letters compared
without case, no escape character -/
def likeMatch : Str → Str → Bool
  | [], s => s.isEmpty
  | p :: ps, s =>
    if p = '%' then anySuffix (likeMatch ps) s
    else match s with
      | [] => false
      | c :: cs => (p = '_' || p.toLower = c.toLower) && likeMatch ps cs

/-- the text a value is matched as by `LIKE` -/
def asText : Value → Option Str
  | .null => none
  | .int i => some (toString i).toList
  | .text s => some s
  | .blob _ => none
  | .obj _ s => some s

/-- `x LIKE p`. A BLOB on either side never matches (this SQLite is built with
LIKE_DOESNT_MATCH_BLOBS: the result is 0, also against NULL). -/
def likeSem (x p : Value) : Tri :=
  match x, p with
  | .blob _, _ => .ff
  | _, .blob _ => .ff
  | _, _ =>
    match asText x, asText p with
    | some s, some pat => .ofBool (likeMatch pat s)
    | _, _ => .unk

/-- `f <op> ?` -/
def semCmp (row : Row) (f : Str) (c : CmpOp) (ps : List Value) : Option (Tri × List Value) :=
  match ps with
  | p :: rest => some (cmp3 c (row f) p, rest)
  | [] => none

/-- `f [NOT] IN (?, …, ?)` with `n` placeholders -/
def semIn (row : Row) (f : Str) (neg : Bool) (n : Nat) (ps : List Value) : Option (Tri × List Value) :=
  if ps.length < n then none else some (Tri.negIf neg (inSem (row f) (ps.take n)), ps.drop n)

/-- `f IS [NOT] NULL` -/
def semNull (row : Row) (f : Str) (neg : Bool) (ps : List Value) : Option (Tri × List Value) :=
  some (Tri.negIf neg (isNullSem (row f)), ps)

/-- `f [NOT] LIKE ?` -/
def semLike (row : Row) (f : Str) (neg : Bool) (ps : List Value) : Option (Tri × List Value) :=
  match ps with
  | p :: rest => some (Tri.negIf neg (likeSem (row f) p), rest)
  | [] => none

/-- the truth value of an SQL value used as a condition: NULL is unknown, 0 false, another number
true (a text is converted to a number by SQLite; the tie supplies 0 / 1 / NULL only) -/
def truth : Value → Tri
  | .null => .unk
  | .int i => if i = 0 then .ff else .tt
  | .text _ => .ff
  | .blob _ => .ff
  | .obj _ _ => .ff

mutual
/-- value of one clause on a row; consumes its parameters from the front of the list, in the
order of the `?` in the text. `none`: not enough parameters (an error of the sqlite3 module) -/
def semW (row : Row) : Where → List Value → Option (Tri × List Value)
  | .cmp f c, ps => semCmp row f c ps
  | .inList f neg n, ps => semIn row f neg n ps
  | .isNull f neg, ps => semNull row f neg ps
  | .like f neg, ps => semLike row f neg ps
  | .const b, ps => some (.ofBool b, ps)
  | .false, ps => some (.ff, ps)
  | .raw t, ps => some (truth (row t), ps)
  | .or ws, ps => semOr row ws ps
def semOr (row : Row) : List Where → List Value → Option (Tri × List Value)
  | [], ps => some (.ff, ps)
  | w :: ws, ps =>
    match semW row w ps with
    | some (t, ps1) =>
      match semOr row ws ps1 with
      | some (u, ps2) => some (t.or u, ps2)
      | none => none
    | none => none
end

/-- `w1 AND … AND wn` -/
def semAnd (row : Row) : List Where → List Value → Option (Tri × List Value)
  | [], ps => some (.tt, ps)
  | w :: ws, ps =>
    match semW row w ps with
    | some (t, ps1) =>
      match semAnd row ws ps1 with
      | some (u, ps2) => some (t.and u, ps2)
      | none => none
    | none => none

/-- value of the whole WHERE clause with exactly these parameters -/
def sem (row : Row) (ws : List Where) (ps : List Value) : Option Tri :=
  match semAnd row ws ps with
  | some (t, []) => some t
  | _ => none

/-! ## what the caller means -/

/-- SQL meaning of `(f, op, value)` as written by the caller: `=`/`!=` with `None` is a NULL test,
with a list/tuple a membership test; `IN` over nothing is false. `none`: not a filter (rejected
by the code or by sqlite3). -/
def intendedLeaf (row : Row) (f op : Str) (a : Arg) : Option Tri :=
  let x := row f
  match classify (upper op), a with
  | some (.cmp .eq), .scalar .null => some (isNullSem x)
  | some (.cmp .ne), .scalar .null => some (isNullSem x).not
  | some (.cmp .eq), .list vs => some (inSem x vs)
  | some (.cmp .ne), .list vs => some (inSem x vs).not
  | some (.cmp c), .scalar v => some (cmp3 c x v)
  | some (.isIn neg), .list vs => some (Tri.negIf neg (inSem x vs))
  | some (.isIn neg), .set vs => some (Tri.negIf neg (inSem x vs))
  | some (.isNull neg), .scalar .null => some (Tri.negIf neg (isNullSem x))
  | some (.like neg), .scalar (.text p) => some (Tri.negIf neg (likeSem x (.text p)))
  | _, _ => none

/-- strict three-valued OR of a list: `none` if a member is `none`, else true if a member is
true, else unknown if a member is unknown, else false (does not depend on the order) -/
def orAll (l : List (Option Tri)) : Option Tri :=
  if none ∈ l then none
  else if some Tri.tt ∈ l then some .tt
  else if some Tri.unk ∈ l then some .unk
  else some .ff

def intendedKw (row : Row) : List (Str × Arg) → List (Option Tri)
  | [] => []
  | (k, a) :: rest => intendedLeaf row k opEq a :: intendedKw row rest

mutual
def intended (row : Row) : Cond → Option Tri
  | .triple f op a => intendedLeaf row f op a
  | .pair f a => intendedLeaf row f opEq a
  | .badOp _ _ => none
  | .badShape => none
  | .raw t => some (truth (row t))
  | .or cs kw => orAll (intendeds row cs ++ intendedKw row kw)
def intendeds (row : Row) : List Cond → List (Option Tri)
  | [] => []
  | c :: cs => intended row c :: intendeds row cs
end

/-! ## forgetting the values (for the non-interference statement) -/

/-- keeps only whether the value is `None`, an `int`, a `str`, bytes or an object of which class -/
def Value.erase : Value → Value
  | .null => .null
  | .int _ => .int 0
  | .text _ => .text []
  | .blob _ => .blob []
  | .obj c _ => .obj c []

/-- keeps the kind of the argument, the length of a list/set and the types of the values -/
def Arg.erase : Arg → Arg
  | .scalar v => .scalar v.erase
  | .list vs => .list (vs.map Value.erase)
  | .set vs => .set (vs.map Value.erase)

def eraseKw (kw : List (Str × Arg)) : List (Str × Arg) := kw.map fun ka => (ka.1, ka.2.erase)

mutual
/-- the condition with every value forgotten: field names, operations, shapes stay -/
def Cond.erase : Cond → Cond
  | .triple f op a => .triple f op a.erase
  | .pair f a => .pair f a.erase
  | .badOp f a => .badOp f a.erase
  | .badShape => .badShape
  | .raw t => .raw t
  | .or cs kw => .or (eraseConds cs) (eraseKw kw)
def eraseConds : List Cond → List Cond
  | [] => []
  | c :: cs => c.erase :: eraseConds cs
end

def eraseArgs : List (Option Cond) → List (Option Cond)
  | [] => []
  | none :: as => none :: eraseArgs as
  | some c :: as => some c.erase :: eraseArgs as

/-- the values of keyword filters are forgotten, the two options are kept -/
def eraseTopKw (kw : List (Str × Arg)) : List (Str × Arg) :=
  kw.map fun ka => if isOptionKey ka.1 then ka else (ka.1, ka.2.erase)

def Call.erase (c : Call) : Call := { args := eraseArgs c.args, kwargs := eraseTopKw c.kwargs }

/-! ## rows returned -/

/-- `ORDER BY k1 [DESC], k2 [DESC], …` -/
abbrev OrderSpec := List (Str × Bool)

def orderText (o : OrderSpec) : Str :=
  joinSep ", ".toList (o.map fun kd => kd.1 ++ (if kd.2 then " DESC".toList else []))

/-- does row `r` come strictly before row `s`; `none`: unknown column -/
def rowBefore : OrderSpec → Cells → Cells → Option Bool
  | [], _, _ => some false
  | (k, desc) :: rest, r, s =>
    match r.get? k, s.get? k with
    | some a, some b =>
      if vLt a b then some (!desc) else if vLt b a then some desc else rowBefore rest r s
    | _, _ => none

def insertRow (o : OrderSpec) (r : Cells) : List Cells → Option (List Cells)
  | [] => some [r]
  | s :: ss =>
    match rowBefore o r s with
    | none => none
    | some true => some (r :: s :: ss)
    | some false => (insertRow o r ss).map (s :: ·)

/-- stable insertion sort -/
def sortRows (o : OrderSpec) : List Cells → Option (List Cells)
  | [] => some []
  | r :: rs =>
    match sortRows o rs with
    | some ss => insertRow o r ss
    | none => none

/-- the row a statement sees, provided every column expression it mentions is a key of the
cells (`none` otherwise: the statement does not compile) -/
def Cells.row? (c : Cells) (fields : List Str) : Option Row :=
  if fields.all (fun f => (c.get? f).isSome) then
    some (fun f => match c.get? f with | some v => v | none => .null)
  else none

/-- rows for which the WHERE clause is true; `fields`: the column expressions of the clause -/
def selectRows (fields : List Str) (ws : List Where) (ps : List Value) : List Cells → Option (List Cells)
  | [] => some []
  | r :: rs =>
    match r.row? fields with
    | none => none
    | some row =>
      match sem row ws ps, selectRows fields ws ps rs with
      | some t, some out => some (if t = .tt then r :: out else out)
      | _, _ => none

inductive Method where
  | list | one | oneOrNone
  /-- `SqlMethodT.one_or_none` (mcaller_sql): at most one record, returned as a table -/
  | oneOrEmpty
  deriving DecidableEq, Repr, Inhabited

/-- `list` returns everything, `one` wants exactly one record, `one_or_none` at most one -/
def finish (m : Method) (rows : List Cells) : Except Fail (Option (List Cells)) :=
  match m, rows with
  | .list, _ => .ok (some rows)
  | .one, [r] => .ok (some [r])
  | .one, _ => .error (.py .valueError)
  | .oneOrNone, [] => .ok none
  | .oneOrNone, [r] => .ok (some [r])
  | .oneOrNone, _ => .error (.py .valueError)
  | .oneOrEmpty, [] => .ok (some [])
  | .oneOrEmpty, [r] => .ok (some [r])
  | .oneOrEmpty, _ => .error (.py .valueError)

/-- the whole call: prepare, let SQLite select and order the rows of the table, apply the method.
`st.orderBy` is the default ORDER BY text, `call.kwargs` may carry `_order_by`; `order` is the
ORDER BY in effect as a structure: the call is answered only if its rendering (`orderText`) is the
text in effect (`orderClause`), otherwise the request itself is inconsistent (`Fail.sql`). -/
def run (pct : Bool) (st : Stmt) (order : Option OrderSpec) (call : Call)
    (m : Method) (table : List Cells) : Except Fail (Option (List Cells)) := do
  let p ← prepare pct st call
  if orderClause st call.kwargs ≠ .ok (order.map orderText) then .error .sql else
  match selectRows (wheresFields p.conj) p.conj p.params table with
  | none => .error .sql
  | some sel =>
    match (match order with
      | some o => sortRows o sel
      | none => some sel) with
    | none => .error .sql
    | some sorted => finish m sorted

end SqlFilter
