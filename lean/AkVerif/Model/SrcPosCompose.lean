import AkVerif.Model.SrcPosParse
import AkVerif.Model.LLGrammar
/-!
C04 on top of the LL model (C01): the whole of `LLParser.parse(text, do_cleanup=False)` as far as positions
are concerned — tokenize (`SrcPos.tokenize`), drop the skipped tokens, run the positioned stack machine
(`runP`) with the parse table of a parser built by `LL.construct`.

Token names are numbers in the C04 tokenizer model and `LL.Sym` in the LL model; `names` translates
(`names[i]` = the Python name of number `i`; the number `cfg.endName` is `$END$`).
-/
namespace SrcPos
open Ak

def symOf (names : List (List Char)) (cfg : Cfg) (id : Nat) : Option LL.Sym :=
  if id = cfg.endName then some LL.endSym else (names[id]?).map LL.parseSym

def valOf (t : Tok) : List Char :=
  match t.val with
  | some v => v
  | none => []

/-- `[t for t in tokens if t.name not in self.skip_tokens]`, with the names of the LL model; `none` when a
number has no name in `names` (malformed request) -/
def ptoksOf (names : List (List Char)) (cfg : Cfg) (skip : List LL.Sym) : List Tok → Option (List (PTok LL.Sym))
  | [] => some []
  | t :: ts =>
    match symOf names cfg t.name, ptoksOf names cfg skip ts with
    | some n, some r => if n ∈ skip then some r else some (⟨n, valOf t, t.span⟩ :: r)
    | _, _ => none

/-- the filter `ptoksOf` applies, as a predicate on the tokenizer's tokens -/
def keepTok (names : List (List Char)) (cfg : Cfg) (skip : List LL.Sym) (t : Tok) : Bool :=
  match symOf names cfg t.name with
  | some n => decide (n ∉ skip)
  | none => true

/-- what the theorems need from the constructed parser (checked by the driver on every request): suffix
symbols are not terminals, `$END$` is a terminal -/
def parserOk (P : LL.Parser) : Bool :=
  P.suffix.all (fun s => decide (s ∉ P.terminals)) && decide (LL.endSym ∈ P.terminals)

def parseFuel : Nat := 20000000

/-- `parse` from the token list on: positioned parse of the non-skipped tokens -/
def parseToks (names : List (List Char)) (cfg : Cfg) (P : LL.Parser) (ts : List Tok) (fuel : Nat) :
    Option (Except ParseErr (PTree LL.Sym)) :=
  match ptoksOf names cfg P.skip ts with
  | none => none
  | some ptoks => some (runP P.cfg ptoks fuel none (initStackP LL.startSym P.start LL.endSym))

/-- outcome of `LLParser.parse(text, do_cleanup=False)` as far as C04 looks at it -/
inductive ParseOut where
  | lex (p : Pos)                                   -- LexicalError(src_pos = p)
  | tokErr (e : Err)
  | noNames                                         -- malformed request
  | parsed (r : Except ParseErr (PTree LL.Sym))     -- the tree or a ParsingError

/-- `parse`: the WHOLE text is tokenized first (`tokens = [t for t in self.tokenizer.tokenize(…) if …]`), only
then the stack machine starts: a lexical error anywhere in the text wins over any syntax error -/
def parseText (B : Bases) (names : List (List Char)) (cfg : Cfg) (re : Re) (P : LL.Parser)
    (lines : List (List Char)) (fuel : Nat) : ParseOut :=
  match tokenize B cfg re lines with
  | .error (.lexical p) => .lex p
  | .error (.py e) => .tokErr e
  | .ok ts =>
    match parseToks names cfg P ts fuel with
    | none => .noNames
    | some r => .parsed r

end SrcPos
