import AkVerif.Model.Sgr
import AkVerif.Model.CHText
/-!
`CHText` values (the model of C08, `Model/CHText.lean`: chunks are `(colour id, text)`) rendered with
the escape sequences of C09.

* A `Palette` lists the prefix/suffix pairs of the formatters the colour ids `1, 2, …` stand for;
  id `0` is the plain chunk (empty prefix and suffix). The abstraction "colour id = prefix" of the
  CHText model is sound for palettes accepted by `palOk` (prefixes non-empty and pairwise
  different); the driver refuses other palettes.
* `renderText` — `str(x)` of a `CHText`: `"".join(prefix + text + suffix for chunk in x.chunks)`;
  `none` when a chunk has a colour id outside the palette.
* `HOp`/`histRun` — a history of one `CHText` object: `+=` of a chunk / a `str` / the object itself /
  a list holding the object, `x = CHText(x)`, and *observations* (`str(x)`); `histRun` returns the
  object's value at every observation. The real object is mutated in place and rendered in between;
  the model has no rendering state, so what is rendered never depends on earlier renderings.
-/
namespace SgrText
open Ak Sgr

abbrev Palette := List (List Char × List Char)

/-- prefix and suffix of colour id `col` -/
def entry (pal : Palette) : Nat → Option (List Char × List Char)
  | 0 => some ([], [])
  | i + 1 => pal[i]?

def toChunks (pal : Palette) : List CHText.Chunk → Option (List Sgr.Chunk)
  | [] => some []
  | c :: cs =>
    match entry pal c.col, toChunks pal cs with
    | some (p, q), some rest => some (⟨p, c.text, q⟩ :: rest)
    | _, _ => none

/-- `str(x)` -/
def renderText (pal : Palette) (t : CHText.Text) : Option (List Char) :=
  (toChunks pal t.chunks).map Sgr.render

/-- `x.plain_text()` -/
def plainText (t : CHText.Text) : List Char := t.cells.map Prod.fst

def distinct : List (List Char) → Bool
  | [] => true
  | p :: ps => !ps.contains p && distinct ps

/-- colour ids and prefixes correspond one to one -/
def palOk (pal : Palette) : Bool :=
  pal.all (fun e => !e.1.isEmpty) && distinct (pal.map Prod.fst)

/-- the formatters `ColorFmt(spec)` for the colour ids `1, 2, …` -/
def mkPalette (cfg : SgrCfg) : List Spec → Except Err Palette
  | [] => .ok []
  | s :: rest =>
    match mkSeq cfg s, mkPalette cfg rest with
    | .ok e, .ok es => .ok (e :: es)
    | .error e, _ => .error e
    | _, .error e => .error e

/-- attributes requested for colour id `col` (specification side) -/
def attrOf (attrs : List Attr) : Nat → Option Attr
  | 0 => some Attr.default
  | i + 1 => attrs[i]?

def wantedAttrs : List Spec → Option (List Attr)
  | [] => some []
  | s :: rest =>
    match wantedAttr s, wantedAttrs rest with
    | some a, some as => some (a :: as)
    | _, _ => none

/-- what should be on the screen for coloured cells -/
def screenOf (attrs : List Attr) : CHText.Cells → Option (List (Char × Attr))
  | [] => some []
  | (c, col) :: rest =>
    match attrOf attrs col, screenOf attrs rest with
    | some a, some r => some ((c, a) :: r)
    | _, _ => none

/-! ### chunk lists given as data (the judged path of the driver)

The observable `cht` / `make` / `hist` / `ops` lines carry the chunk list the real object reports;
the driver renders that list with `renderGiven`. A chunk is given by the colour id of its formatter,
or (`raw`) by an explicit prefix/suffix pair when no formatter of the line produced it. -/

inductive Given where
  | byId (col : Nat) (text : List Char)
  | raw (pre suf text : List Char)
  deriving Repr, DecidableEq

def Given.text : Given → List Char
  | .byId _ t => t
  | .raw _ _ t => t

def givenChunk (pal : Palette) : Given → Option Sgr.Chunk
  | .byId col t => (entry pal col).map fun e => ⟨e.1, t, e.2⟩
  | .raw p q t => some ⟨p, t, q⟩

def givenChunks (pal : Palette) : List Given → Option (List Sgr.Chunk)
  | [] => some []
  | g :: gs =>
    match givenChunk pal g, givenChunks pal gs with
    | some c, some cs => some (c :: cs)
    | _, _ => none

/-- `str(x)` for the given chunk list -/
def renderGiven (pal : Palette) (gs : List Given) : Option (List Char) :=
  (givenChunks pal gs).map Sgr.render

/-- the characters between `ESC [` and the final `m` of a string that is exactly one sequence -/
def seqBody : List Char → Option (List Char)
  | a :: b :: rest =>
    if a = ESC ∧ b = '[' ∧ rest.getLast? = some 'm' then some rest.dropLast else none
  | _ => none

/-- the parameter characters of the sequences this package emits -/
def paramAlphabet : List Char := ";0123456789:".toList

/-- attributes a well-formed raw prefix switches a terminal in default state to -/
def rawAttr (p : List Char) : Option Attr :=
  match p with
  | [] => some Attr.default
  | _ =>
    match seqBody p with
    | some body => if body.all paramAlphabet.contains then applySgr body Attr.default else none
    | none => none

/-- well-formedness of an explicit prefix/suffix pair (checked by the driver on every `raw` chunk):
both empty, or the prefix is one SGR sequence of parameters the terminal accepts and the suffix is
one SGR sequence that brings the terminal from there back to default state -/
def rawOk (p q : List Char) : Bool :=
  match p, q with
  | [], [] => true
  | _, _ =>
    match rawAttr p, seqBody q with
    | some a, some body => body.all paramAlphabet.contains && applySgr body a == some Attr.default && !p.isEmpty
    | _, _ => false

def Given.ok : Given → Bool
  | .byId _ _ => true
  | .raw p q _ => rawOk p q

/-- attributes requested for the characters of a given chunk: those of its formatter, or what its
explicit prefix sets -/
def Given.attr (attrs : List Attr) : Given → Option Attr
  | .byId col _ => attrOf attrs col
  | .raw p _ _ => rawAttr p

/-- what should be on the screen for a given chunk list -/
def givenScreen (attrs : List Attr) : List Given → Option (List (Char × Attr))
  | [] => some []
  | g :: gs =>
    match g.attr attrs, givenScreen attrs gs with
    | some a, some rest => some (g.text.map (fun c => (c, a)) ++ rest)
    | _, _ => none

/-! ### histories of one object -/

inductive HOp where
  | app (col : Nat) (text : List Char)     -- `x += fmt_col(text)`
  | str (text : List Char)                 -- `x += text`
  | self                                   -- `x += x`
  | selfList                               -- `x += [x]`
  | clone                                  -- `x = CHText(x)`
  | look                                   -- observe `str(x)`, `x.plain_text()`, `strip_colors(str(x))`
  deriving Repr

def HOp.apply (t : CHText.Text) : HOp → CHText.Text
  | .app col s => CHText.iadd t (.chunk ⟨col, s⟩)
  | .str s => CHText.iadd t (.str s)
  | .self => CHText.iadd t (.text t)
  | .selfList => CHText.iadd t (.list false [.text t])
  | .clone => CHText.construct [.text t]
  | .look => t

/-- the value of the object at every observation -/
def histRun (t : CHText.Text) : List HOp → List CHText.Text
  | [] => []
  | .look :: ops => t :: histRun t ops
  | op :: ops => histRun (op.apply t) ops

end SgrText
