import AkVerif.Model.Proto
import AkVerif.Model.LLGrammar
/-!
Line-protocol handler shared by the drivers of C01, C02, C03 (`Drv/C0x.lean` = `runS handle none`).

Requests (fields separated by blanks; names are plain identifiers, texts comma-separated code points):
```
g <smart 0|1> <start|-> <tok> <syn> <kw> <skip> <prods>   -> ok amb=<0|1> | err <Class>   (`-`: start_symbol_name not given = 'E')
      tok   = NAME~regexcps;NAME~regexcps…   (the model reads the names only)
      syn   = - | GROUP>TOKEN;…
      kw    = - | TOKEN~valuecps>TOKEN;…
      skip  = - (None) | () (empty set) | NAME;NAME…
      prods = - | SYM=alt|alt…;SYM=…   alt = ~ (empty) | s.s.s      (`SYM=` : no alternatives)
p <textcps> <raw>                                         -> tree <sexp> | err <Class> | nogrammar
ps <start> <textcps> <raw>                                -> the same for parse(text, start_symbol_name=<start>)
      raw   = - | GROUP~valuecps;…   (the lexemes found by `re`, before naming and skipping)
amb                                                       -> amb=<0|1>   (is_ambiguous() again, after the parses)
prods | suffix | table | nullables | first | follow       -> diagnostics (not part of the verdict)
reset                                                     -> ok
```
-/
namespace LL.Drv
open Ak Ak.Proto LL

def parseFuel : Nat := 20000000

def splitNonEmpty (s : String) (sep : String) : List String :=
  if s = "-" ∨ s = "" then [] else s.splitOn sep

def parseName (s : String) : List Char := s.toList

/-- `NAME~cps` -/
def parseNameCps (s : String) : Option (List Char × List Char) :=
  match s.splitOn "~" with
  | [n, c] => (parseCps (if c = "" then "-" else c)).map fun cs => (parseName n, cs)
  | _ => none

def parseSyn (s : String) : Option (List (List Char × List Char)) :=
  (splitNonEmpty s ";").mapM fun it =>
    match it.splitOn ">" with
    | [a, b] => some (parseName a, parseName b)
    | _ => none

def parseKw (s : String) : Option (List ((List Char × List Char) × List Char)) :=
  (splitNonEmpty s ";").mapM fun it =>
    match it.splitOn ">" with
    | [a, b] => (parseNameCps a).map fun k => (k, parseName b)
    | _ => none

def parseSkip (s : String) : Option (List (List Char)) :=
  if s = "-" then none
  else if s = "()" then some []
  else some ((s.splitOn ";").map parseName)

def parseAlt (s : String) : List (List Char) :=
  if s = "~" then [] else (s.splitOn ".").map parseName

def parseProds (s : String) : Option (List (List Char × List (List (List Char)))) :=
  (splitNonEmpty s ";").mapM fun it =>
    match it.splitOn "=" with
    | [n, alts] => some (parseName n, if alts = "" then [] else (alts.splitOn "|").map parseAlt)
    | _ => none

def parseRaw (s : String) : Option (List (List Char × List Char)) :=
  (splitNonEmpty s ";").mapM parseNameCps

def showName (s : Sym) : String := String.ofList s.name

def sortNames (l : List Sym) : List Sym := sortBy (fun a b => !strLt b.name a.name) l

def showRhs (p : List Sym) : String :=
  if p.isEmpty then "~" else ".".intercalate (p.map showName)

def showRule (r : Rule Sym) : String := showRhs r.rhs ++ "#" ++ toString r.sortN

def showProds (G : Prods Sym) : String :=
  if G.isEmpty then "-" else
  ";".intercalate (G.map fun (s, rules) => showName s ++ "=" ++ "|".intercalate (rules.map showRule))

def showSet (l : List Sym) : String :=
  if l.isEmpty then "-" else ",".intercalate ((sortNames l).map showName)

def showSetMap (m : SetMap Sym) : String :=
  if m.isEmpty then "-" else
  let keys := sortNames (m.map (·.1))
  ";".intercalate (keys.map fun k =>
    showName k ++ "=" ++ (match dget k m with | some l => showSet l | none => "?"))

def keyLe (a b : Sym × Sym) : Bool :=
  if strLt a.1.name b.1.name then true
  else if strLt b.1.name a.1.name then false
  else !strLt b.2.name a.2.name

def showTable (T : Table Sym) : String :=
  if T.isEmpty then "-" else
  let keys := sortBy keyLe (T.map (·.1))
  ";".intercalate (keys.map fun k =>
    showName k.1 ++ "/" ++ showName k.2 ++ "=" ++
      (match dget k T with | some l => "|".intercalate (l.map fun r => showRhs r.rhs) | none => "?"))

mutual
def showTree : Tree Sym → String
  | .leaf n v => showName n ++ ":" ++ showCps v
  | .node n cs => "(" ++ showName n ++ showTrees cs ++ ")"
def showTrees : List (Tree Sym) → String
  | [] => ""
  | t :: ts => " " ++ showTree t ++ showTrees ts
end

def handleG (args : List String) : Option Parser × String :=
  match args with
  | [smart, start, tok, syn, kw, skip, prods] =>
    let groups := (splitNonEmpty tok ";").mapM fun it =>
      match it.splitOn "~" with
      | n :: _ => some (parseName n)
      | [] => none
    match groups, parseSyn syn, parseKw kw, parseProds prods with
    | some groups, some syn, some kw, some prods =>
      let inp : CtorIn := { groups := groups, syn := syn, kw := kw, skip := parseSkip skip,
                            start := parseName (if start = "-" then "E" else start), prods := prods,
                            smart := smart = "1" }
      match construct inp with
      | .ok P => (some P, "ok amb=" ++ (if isAmbiguous P.table then "1" else "0"))
      | .error e => (none, "err " ++ e.name)
    | _, _, _, _ => (none, "bad-op")
  | _ => (none, "bad-op")

def handle (st : Option Parser) (line : String) : Option Parser × String :=
  match splitWs line with
  | "reset" :: _ => (none, "ok")
  | "g" :: args => handleG args
  | ["p", _, raw] =>
    match st, parseRaw raw with
    | some P, some toks =>
      (st, match P.parse toks parseFuel with
           | .ok t => "tree " ++ showTree t
           | .error e => "err " ++ e.name)
    | none, _ => (st, "nogrammar")
    | _, none => (st, "bad-op")
  | ["ps", s, _, raw] =>
    match st, parseRaw raw with
    | some P, some toks =>
      (st, match P.parseFrom (parseName s) toks parseFuel with
           | .ok t => "tree " ++ showTree t
           | .error e => "err " ++ e.name)
    | none, _ => (st, "nogrammar")
    | _, none => (st, "bad-op")
  | [op] =>
    match st with
    | none => (st, "nogrammar")
    | some P =>
      (st, match op with
        | "amb" => "amb=" ++ (if isAmbiguous P.table then "1" else "0")
        | "prods" => showProds P.prods
        | "suffix" => showSet P.suffix
        | "table" => showTable P.table
        | "nullables" => showSet P.nullables
        | "first" => showSetMap P.first
        | "follow" => showSetMap P.follow
        | "terminals" => showSet P.terminals
        | _ => "bad-op")
  | _ => (st, "bad-op")

end LL.Drv
