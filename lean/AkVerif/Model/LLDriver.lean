import AkVerif.Model.Proto
import AkVerif.Model.LLGrammar
import AkVerif.Model.LLCtorN
/-!
Line-protocol handler shared by the drivers of C01, C02, C03 (`Drv/C0x.lean` = `runS handle none`).

Requests (fields separated by blanks; names are plain identifiers, texts comma-separated code points):
```
g <smart 0|1> <start|-> <tok> <syn> <kw> <skip> <prods>   -> ok amb=<0|1> | err <Class>   (`-`: start_symbol_name not given = 'E')
      tok   = NAME~regexcps;NAME~regexcps…   (the model reads the names only)
      syn   = - | GROUP>TOKEN;…
      kw    = - | TOKEN~valuecps>TOKEN;…
      skip  = - (None) | () (empty set) | NAME;NAME…
      prods = - | SYM=alt|alt…;SYM=…   alt = ~ (empty) | s.s.s      (`SYM=` : no alternatives)
p <textcps> <raw>                                         -> tree <sexp> | err <Class> | nogrammar
ps <start> <textcps> <raw>                                -> the same for parse(text, start_symbol_name=<start>)
      raw   = - | GROUP~valuecps;…   (the lexemes found by `re`, before naming and skipping)
amb                                                       -> amb=<0|1>   (is_ambiguous() again, after the parses)
prods | suffix | table | nullables | first | follow       -> diagnostics (not part of the verdict)
use <k>                                                   -> ok          (make the k-th parser of this case current)
pl <textcps> <raw>                                        -> as `p`; the real parser gets the text as a list of lines
reset                                                     -> ok
```
Optional extra fields of `g`: `T=<tmpl>/<gen>/<seq>[/<nonull>]` (comma lists or `-`): keys given as a template, symbols the
templates generated, `ProdSequence` symbols (their nodes are shown flattened: `[S item item …]`), item symbols of the
`ListProds` templates without a delimiter (`verify_grammar`: such an item must not be nullable, `constructGN`);
`K=…` (argument kinds for the real constructor, ignored here).  Every `g` adds a parser object; the earlier
ones stay alive and unchanged (`use`).
-/
namespace LL.Drv
open Ak Ak.Proto LL

def parseFuel : Nat := 20000000

def splitNonEmpty (s : String) (sep : String) : List String :=
  if s = "-" ∨ s = "" then [] else s.splitOn sep

def parseName (s : String) : List Char := s.toList

/-- `NAME~cps` -/
def parseNameCps (s : String) : Option (List Char × List Char) :=
  match s.splitOn "~" with
  | [n, c] => (parseCps (if c = "" then "-" else c)).map fun cs => (parseName n, cs)
  | _ => none

def parseSyn (s : String) : Option (List (List Char × List Char)) :=
  (splitNonEmpty s ";").mapM fun it =>
    match it.splitOn ">" with
    | [a, b] => some (parseName a, parseName b)
    | _ => none

def parseKw (s : String) : Option (List ((List Char × List Char) × List Char)) :=
  (splitNonEmpty s ";").mapM fun it =>
    match it.splitOn ">" with
    | [a, b] => (parseNameCps a).map fun k => (k, parseName b)
    | _ => none

def parseSkip (s : String) : Option (List (List Char)) :=
  if s = "-" then none
  else if s = "()" then some []
  else some ((s.splitOn ";").map parseName)

def parseAlt (s : String) : List (List Char) :=
  if s = "~" ∨ s = "!" then [] else (s.splitOn ".").map parseName   -- `!`: the alternative was given as None

def parseProds (s : String) : Option (List (List Char × List (List (List Char)))) :=
  (splitNonEmpty s ";").mapM fun it =>
    match it.splitOn "=" with
    | [n, alts] => some (parseName n, if alts = "" then [] else (alts.splitOn "|").map parseAlt)
    | _ => none

def parseRaw (s : String) : Option (List (List Char × List Char)) :=
  (splitNonEmpty s ";").mapM parseNameCps

def showName (s : Sym) : String := String.ofList s.name

def sortNames (l : List Sym) : List Sym := sortBy (fun a b => !strLt b.name a.name) l

def showRhs (p : List Sym) : String :=
  if p.isEmpty then "~" else ".".intercalate (p.map showName)

def showRule (r : Rule Sym) : String := showRhs r.rhs ++ "#" ++ toString r.sortN

def showProds (G : Prods Sym) : String :=
  if G.isEmpty then "-" else
  ";".intercalate (G.map fun (s, rules) => showName s ++ "=" ++ "|".intercalate (rules.map showRule))

def showSet (l : List Sym) : String :=
  if l.isEmpty then "-" else ",".intercalate ((sortNames l).map showName)

def showSetMap (m : SetMap Sym) : String :=
  if m.isEmpty then "-" else
  let keys := sortNames (m.map (·.1))
  ";".intercalate (keys.map fun k =>
    showName k ++ "=" ++ (match dget k m with | some l => showSet l | none => "?"))

def keyLe (a b : Sym × Sym) : Bool :=
  if strLt a.1.name b.1.name then true
  else if strLt b.1.name a.1.name then false
  else !strLt b.2.name a.2.name

def showTable (T : Table Sym) : String :=
  if T.isEmpty then "-" else
  let keys := sortBy keyLe (T.map (·.1))
  ";".intercalate (keys.map fun k =>
    showName k.1 ++ "/" ++ showName k.2 ++ "=" ++
      (match dget k T with | some l => "|".intercalate (l.map fun r => showRhs r.rhs) | none => "?"))

/-- children of a completed `ProdSequence` node `S -> (S__ELEMENT, S) | ()`, outermost first -/
def seqChain : Nat → Tree Sym → List (Tree Sym)
  | 0, _ => []
  | fuel + 1, .node _ [el, tail] => el :: seqChain fuel tail
  | _, _ => []

/-- the tree as `parse(do_cleanup=False)` returns it: nodes of sequence symbols are flattened
(`_process_seq_telement`: the list of the matched members) -/
def showTreeF (seqs : List (List Char)) : Nat → Tree Sym → String
  | 0, _ => "?"
  | _, .leaf n v => showName n ++ ":" ++ showCps v
  | fuel + 1, .node n cs =>
    if n.name ∈ seqs then
      let items := (seqChain 10000000 (.node n cs)).map fun el =>
        match el.children with
        | [m] => showTreeF seqs fuel m
        | _ => "?"
      "[" ++ " ".intercalate (showName n :: items) ++ "]"
    else "(" ++ " ".intercalate (showName n :: cs.map (showTreeF seqs fuel)) ++ ")"

def showTree (seqs : List (List Char)) (t : Tree Sym) : String := showTreeF seqs 10000000 t

/-- the parser objects of one case (with their `ProdSequence` symbols) and the current one -/
structure DState where
  slots : List (Parser × List (List Char)) := []
  cur : Nat := 0

def DState.get (st : DState) : Option (Parser × List (List Char)) := st.slots[st.cur]?

def parseList (s : String) : List (List Char) := (splitNonEmpty s ",").map parseName

def parseTmpl (extras : List String) : Tmpl × List (List Char) :=
  match extras.find? (fun e => e.startsWith "T=") with
  | some e =>
    match (e.drop 2).toString.splitOn "/" with
    | [a, b, c] => (⟨parseList a, parseList b⟩, parseList c)
    | [a, b, c, _] => (⟨parseList a, parseList b⟩, parseList c)
    | _ => (Tmpl.none, [])
  | none => (Tmpl.none, [])

/-- 4th part of `T=`: the item symbols of the delimiter-less `ListProds` templates -/
def nonullOf (args : List String) : List (List Char) :=
  match args.find? (fun e => e.startsWith "T=") with
  | some e =>
    match (e.drop 2).toString.splitOn "/" with
    | [_, _, _, d] => parseList d
    | _ => []
  | none => []

/-- the arguments of a `g` request -/
def decodeG (args : List String) : Option (Tmpl × List (List Char) × CtorIn) :=
  match args with
  | smart :: start :: tok :: syn :: kw :: skip :: prods :: extras =>
    let groups := (splitNonEmpty tok ";").mapM fun it =>
      match it.splitOn "~" with
      | n :: _ => some (parseName n)
      | [] => none
    match groups, parseSyn syn, parseKw kw, parseProds prods with
    | some groups, some syn, some kw, some prods =>
      let inp : CtorIn := { groups := groups, syn := syn, kw := kw, skip := parseSkip skip,
                            start := parseName (if start = "-" then "E" else start), prods := prods,
                            smart := smart = "1" }
      let (T, seqs) := parseTmpl extras
      some (T, seqs, inp)
    | _, _, _, _ => none
  | _ => none

/-- a new parser object is appended and becomes current; after a failed construction there is no current parser -/
def addResult (st : DState) (seqs : List (List Char)) : Except Err Parser → DState × String
  | .ok P => ({ slots := st.slots ++ [(P, seqs)], cur := st.slots.length },
              "ok amb=" ++ (if isAmbiguous P.table then "1" else "0"))
  | .error e => ({ st with cur := st.slots.length }, "err " ++ e.name)

def handleG (st : DState) (args : List String) : DState × String :=
  match decodeG args with
  | some (T, seqs, inp) => addResult st seqs (constructGN (nonullOf args) T inp)
  | none => ({ st with cur := st.slots.length }, "bad-op")

def parseReply (seqs : List (List Char)) : Except Err (Tree Sym) → String
  | .ok t => "tree " ++ showTree seqs t
  | .error e => "err " ++ e.name

/-- `parse(..., do_cleanup=True)`: the cleaned tree is not the property's subject, only that a tree is returned -/
def parseReplyF (cleanup : Bool) (seqs : List (List Char)) (r : Except Err (Tree Sym)) : String :=
  match cleanup, r with
  | true, .ok _ => "accepted"
  | _, r => parseReply seqs r

def handle (st : DState) (line : String) : DState × String :=
  match splitWs line with
  | "reset" :: _ => ({}, "ok")
  | "g" :: args => handleG st args
  | ["use", k] =>
    match k.toNat? with
    | some n => ({ st with cur := n }, "ok")
    | none => (st, "bad-op")
  | ["p", _, raw] =>
    match st.get, parseRaw raw with
    | some (P, seqs), some toks => (st, parseReply seqs (P.parse toks parseFuel))
    | none, _ => (st, "nogrammar")
    | _, none => (st, "bad-op")
  | ["pl", _, raw] =>
    match st.get, parseRaw raw with
    | some (P, seqs), some toks => (st, parseReply seqs (P.parse toks parseFuel))
    | none, _ => (st, "nogrammar")
    | _, none => (st, "bad-op")
  | ["ps", s, _, raw] =>
    match st.get, parseRaw raw with
    | some (P, seqs), some toks => (st, parseReply seqs (P.parseFrom (parseName s) toks parseFuel))
    | none, _ => (st, "nogrammar")
    | _, none => (st, "bad-op")
  | ["px", flags, s, _, raw] =>
    -- `parse` with keyword arguments: flags `d` debug=True, `c` do_cleanup=True, `n` src_name given, `l` list of lines;
    -- `s` = start_symbol_name or `-`.  `debug` and `src_name` do not enter the result.
    match st.get, parseRaw raw with
    | some (P, seqs), some toks =>
      (st, parseReplyF (flags.contains 'c') seqs
        (if s = "-" then P.parse toks parseFuel else P.parseFrom (parseName s) toks parseFuel))
    | none, _ => (st, "nogrammar")
    | _, none => (st, "bad-op")
  | [op] =>
    match st.get with
    | none => (st, "nogrammar")
    | some (P, _) =>
      (st, match op with
        | "amb" => "amb=" ++ (if isAmbiguous P.table then "1" else "0")
        | "prods" => showProds P.prods
        | "suffix" => showSet P.suffix
        | "table" => showTable P.table
        | "nullables" => showSet P.nullables
        | "first" => showSetMap P.first
        | "follow" => showSetMap P.follow
        | "terminals" => showSet P.terminals
        -- observer methods of the parser object (`print_detailed_descr`, `str`, `repr`, …): pure, nothing to report
        | _ => if op.startsWith "obs" then "ok" else "bad-op")
  | _ => (st, "bad-op")

end LL.Drv
