import AkVerif.Model.Common
/-!
Model of the escape-sequence layer of `/repo/ak/color.py` (C09).

Code side (generic in the constants read from the source, `SgrCfg` / `CharClass`; the generated
values live in `Gen.C09` and are plugged in by the driver and by `Props/C09.lean`):

* `seqElement`  — `_ColorSequences._make_seq_element`: name → table code; `(r,g,b)` → int;
                  `'g<digits>'` → int; int → `"<3|4>8:5:<n>"`; everything else `ValueError`.
                  Every kind of value is represented (`ColorSpec`): lists are tuples to the code, members of any
                  type (`Num.other`), objects of any other type (`.other`); only `'g+5'`/`'g 5'`/`'g1_0'` style
                  strings (accepted by Python's `int()`) are outside the domain.
* `mkSeq`       — `_ColorSequences.make`: prefix and suffix of a formatter.
* `mkSeqBytes`  — the same with `make_bytes=True` (`str.encode()` = UTF-8).
* `buildChunks` — `CHText(*parts)`: `_append_chunk` drops empty texts and merges a chunk into the
                  previous one when the prefixes are equal (the merged chunk keeps the *previous*
                  prefix and suffix).
* `render` / `plain` — `CHText.__str__` / `plain_text` (`_CHTextChunk.__str__` is the one-chunk case).
* `strip`       — `re.sub(ESC \[ class* final, "", text)`: leftmost matches, greedy star with
                  backtracking, scanning continues after a match.

Specification side (not read from the source; ECMA-48 / ITU T.416 as implemented by terminals):

* `Attr`, `run` — a terminal: ground / ESC / CSI states; `ESC [ params m` changes the attributes,
                  every other character is shown with the current attributes. `none` = the input
                  contains something outside the SGR subset (lone ESC, unknown parameter,
                  unterminated sequence), so `run … = some …` also says "well formed".
-/
namespace Sgr
open Ak

def ESC : Char := Char.ofNat 27

/-! ## colour arguments -/

/-- a member of a tuple / list passed as a colour value: an `int` (also of a subclass, `bool` included), a `float` with the
value `num / den` (`den > 0`; `7.0` is `flt 7 1`: it compares and hashes equal to `int 7` but is not an `int`), or
anything else (`None`, a `str`, a nested sequence, any other object) -/
inductive Num where
  | int (n : Int)
  | flt (num : Int) (den : Nat)
  | other
  deriving Repr, DecidableEq

/-- `isinstance(color, (list, tuple))`: the code treats both kinds (and their subclasses) alike -/
inductive SeqKind where
  | tuple
  | list
  deriving Repr, DecidableEq

/-- a value passed as `color` / `bg_color` -/
inductive ColorSpec where
  | none                      -- `None`
  | str (s : List Char)       -- any `str`
  | int (n : Int)             -- any `int`, also of a subclass (IntEnum member, `bool`: `True` is 1, …)
  | float (num : Int) (den : Nat)   -- any finite `float`
  | tuple (kind : SeqKind) (xs : List Num)   -- a tuple or a list (also namedtuple / subclasses) of any members, any length
  | other                     -- an object of any other type, hashable or not (`bytes`, `dict`, `set`, `object()`, `complex`, …)
  deriving Repr, DecidableEq

inductive Effect where
  | bold | faint | underline | blink | crossed
  deriving Repr, DecidableEq

/-- a value passed for an effect flag or for `no_color`. The code only asks for its truth value
(`if bold:`, `if not no_color:`), so the kinds below are told apart only by `truthy` -/
inductive PyVal where
  | none                            -- `None`
  | bool (b : Bool)
  | int (n : Int)
  | float (num : Int) (den : Nat)   -- the float `num / den`
  | str (s : List Char)
  | list (len : Nat)                -- a list with `len` elements
  deriving Repr, DecidableEq

/-- Python's truth value: `None`, `False`, `0`, `0.0`, `""`, `[]` are false, everything else is true -/
def truthy : PyVal → Bool
  | .none => false
  | .bool b => b
  | .int n => n ≠ 0
  | .float num _ => num ≠ 0
  | .str s => !s.isEmpty
  | .list len => len ≠ 0

/-- arguments of `ColorFmt` / `ColorBytes` -/
structure Spec where
  fg : ColorSpec
  bg : ColorSpec
  bold : PyVal
  faint : PyVal
  underline : PyVal
  blink : PyVal
  crossed : PyVal
  noColorArg : PyVal
  deriving Repr, DecidableEq

/-- `if no_color` -/
def Spec.noColor (s : Spec) : Bool := truthy s.noColorArg

def Spec.flag (s : Spec) : Effect → PyVal
  | .bold => s.bold | .faint => s.faint | .underline => s.underline
  | .blink => s.blink | .crossed => s.crossed

/-- the constants of `_ColorSequences` (generated from the source) -/
structure SgrCfg where
  colors : List (List Char × List Char)     -- `_COLORS`
  effects : List (Effect × List Char)       -- `if <effect>: color_codes.append(<code>)`, in order
  intro : List Char                         -- `"\033["`
  final : List Char                         -- `"m"`
  joiner : List Char                        -- `";"`
  reset : List Char                         -- `"\033[0m"`
  fgId : List Char                          -- `"3"`
  bgId : List Char                          -- `"4"`
  ext : List Char                           -- `"8:5:"`
  deriving Repr, DecidableEq

def lookup : List (List Char × List Char) → List Char → Option (List Char)
  | [], _ => none
  | (k, v) :: rest, s => if k = s then some v else lookup rest s

def isAsciiDigit (c : Char) : Bool := 48 ≤ c.toNat && c.toNat ≤ 57

def decVal : List Char → Nat → Option Nat
  | [], acc => some acc
  | c :: cs, acc => if isAsciiDigit c then decVal cs (acc * 10 + (c.toNat - 48)) else none

/-- a non-empty string of ASCII digits → its value (leading zeros allowed, like `int()`) -/
def parseDec (s : List Char) : Option Nat :=
  match s with
  | [] => none
  | _ :: _ => decVal s 0

/-- `f"{n}"` of a non-negative int -/
def natDigits (n : Nat) : List Char := Nat.toDigits 10 n

/-- case 4 of `_make_seq_element` -/
def intElem (cfg : SgrCfg) (id : List Char) (n : Int) : Except Err (List Char) :=
  match n with
  | .negSucc _ => .error .valueError                 -- `color < 0`
  | .ofNat k =>
    if k > 255 then .error .valueError               -- `color > 255`
    else .ok (id ++ cfg.ext ++ natDigits k)

def seqElement (cfg : SgrCfg) (isBg : Bool) (c : ColorSpec) : Except Err (List Char) :=
  let id := if isBg then cfg.bgId else cfg.fgId
  match c with
  | .str s =>
    match lookup cfg.colors s with
    | some code => .ok (id ++ code)
    | none =>
      match s with
      | 'g' :: rest =>
        match parseDec rest with
        | some shade =>
          if shade > 24 then .error .valueError else intElem cfg id (232 + (shade : Int))
        | none => .error .valueError        -- `int()` failed: shade = -1
      | _ => .error .valueError
  | .tuple _ xs =>                             -- `isinstance(color, (list, tuple))`
    match xs with
    | [r, g, b] =>
      match r, g, b with
      | .int r, .int g, .int b =>
        if r < 0 ∨ r > 5 ∨ g < 0 ∨ g > 5 ∨ b < 0 ∨ b > 5 then .error .valueError
        else intElem cfg id (16 + r * 36 + g * 6 + b)
      | _, _, _ => .error .valueError          -- `not isinstance(c, int)` for some member
    | _ => .error .valueError                  -- `len(color) != 3`
  | .int n => intElem cfg id n
  | .float _ _ => .error .valueError
  | .none => .error .valueError
  | .other => .error .valueError

/-- `if color is not None: color_codes.append(cls._make_seq_element(color, is_bg))` -/
def optElement (cfg : SgrCfg) (isBg : Bool) (c : ColorSpec) : Except Err (List (List Char)) :=
  match c with
  | .none => .ok []
  | c =>
    match seqElement cfg isBg c with
    | .ok x => .ok [x]
    | .error e => .error e

/-- colour parameters in the order of evaluation (`color` first) -/
def colorCodes (cfg : SgrCfg) (s : Spec) : Except Err (List (List Char)) :=
  match optElement cfg false s.fg with
  | .error e => .error e
  | .ok a =>
    match optElement cfg true s.bg with
    | .error e => .error e
    | .ok b => .ok (a ++ b)

def effectCodes (cfg : SgrCfg) (s : Spec) : List (List Char) :=
  cfg.effects.filterMap fun (e, code) => if truthy (s.flag e) then some code else none

/-- `sep.join(parts)` -/
def joinWith (sep : List Char) : List (List Char) → List Char
  | [] => []
  | [x] => x
  | x :: y :: rest => x ++ sep ++ joinWith sep (y :: rest)

/-- `_ColorSequences.make(..., make_bytes=False)` -/
def mkSeq (cfg : SgrCfg) (s : Spec) : Except Err (List Char × List Char) :=
  if s.noColor then .ok ([], [])
  else
    match colorCodes cfg s with
    | .error e => .error e
    | .ok cc =>
      match cc ++ effectCodes cfg s with
      | [] => .ok ([], [])
      | c :: cs => .ok (cfg.intro ++ joinWith cfg.joiner (c :: cs) ++ cfg.final, cfg.reset)

/-- `str.encode()` -/
def encodeUtf8 (s : List Char) : List UInt8 := s.flatMap String.utf8EncodeChar

/-- `_ColorSequences.make(..., make_bytes=True)` -/
def mkSeqBytes (cfg : SgrCfg) (s : Spec) : Except Err (List UInt8 × List UInt8) :=
  (mkSeq cfg s).map fun (p, q) => (encodeUtf8 p, encodeUtf8 q)

/-! ## chunks and texts -/

structure Chunk where
  pre : List Char
  text : List Char
  suf : List Char
  deriving Repr, DecidableEq

/-- `CHText.__init__` over chunk parts: `cur` is the last chunk of `self.chunks` (if any), the
chunks before it are already emitted. -/
def buildGo : Option Chunk → List Chunk → List Chunk
  | none, [] => []
  | some p, [] => [p]
  | none, c :: cs => if c.text = [] then buildGo none cs else buildGo (some c) cs
  | some p, c :: cs =>
    if c.text = [] then buildGo (some p) cs
    else if p.pre = c.pre then buildGo (some { p with text := p.text ++ c.text }) cs
    else p :: buildGo (some c) cs

def buildChunks (parts : List Chunk) : List Chunk := buildGo none parts

def render : List Chunk → List Char
  | [] => []
  | c :: cs => c.pre ++ c.text ++ c.suf ++ render cs

def plain : List Chunk → List Char
  | [] => []
  | c :: cs => c.text ++ plain cs

/-- formatter applied to a text: `ColorFmt(...)(text)` -/
def mkChunk (cfg : SgrCfg) (s : Spec) (t : List Char) : Except Err Chunk :=
  (mkSeq cfg s).map fun (p, q) => ⟨p, t, q⟩

/-- all formatters are constructed (left to right) before the text is assembled -/
def mkChunks (cfg : SgrCfg) : List (Spec × List Char) → Except Err (List Chunk)
  | [] => .ok []
  | (s, t) :: rest =>
    match mkChunk cfg s t with
    | .error e => .error e
    | .ok c =>
      match mkChunks cfg rest with
      | .error e => .error e
      | .ok cs => .ok (c :: cs)

/-! ## routes from a formatter's result to a `str`; the other constructor -/

/-- how the chunk `x = fmt(text)` becomes a string: `str(x)` and `'%s' % x` print the chunk itself
(`_CHTextChunk.__str__`: prefix and suffix also around an empty text); `f"{x}"`, `format(x, spec)`,
`x + s`, `s + x` go through `CHText(x)`, whose constructor drops a chunk with empty text -/
inductive Route where
  | direct
  | viaText
  deriving Repr, DecidableEq

def routeBody (c : Chunk) : Route → List Char
  | .direct => render [c]
  | .viaText => if c.text = [] then [] else render [c]

/-- the resulting string: `left`/`right` are what the route writes around the chunk (the fill
characters of a format spec, the `str` that was added) - always **outside** the chunk's sequences -/
def routeStr (left right : List Char) (c : Chunk) (rt : Route) : List Char :=
  left ++ routeBody c rt ++ right

/-- `CHText._merge_chunks` (`CHText.make`): neighbours with equal prefix are merged
(`add_chunks_same_type`: prefix and suffix of the first), chunks with empty text are kept -/
def mergeGo : Chunk → List Chunk → List Chunk
  | cur, [] => [cur]
  | cur, c :: cs =>
    if cur.pre = c.pre then mergeGo { cur with text := cur.text ++ c.text } cs
    else cur :: mergeGo c cs

def mergeChunks : List Chunk → List Chunk
  | [] => []
  | c :: cs => mergeGo c cs

/-! ## strip_colors -/

/-- a regular-expression character class: literal characters and inclusive code point ranges
(`\d` arrives as the ranges of Unicode decimal digits) -/
structure CharClass where
  lits : List Char
  ranges : List (Nat × Nat)
  deriving Repr, DecidableEq

def CharClass.mem (k : CharClass) (c : Char) : Bool :=
  k.lits.contains c || k.ranges.any fun (a, b) => a ≤ c.toNat && c.toNat ≤ b

/-- `class* final` matched at the head of the input, greedy with backtracking;
returns the number of characters consumed -/
def matchBody (k : CharClass) (fin : Char) : List Char → Option Nat
  | [] => none
  | c :: cs =>
    if k.mem c then
      match matchBody k fin cs with
      | some n => some (n + 1)
      | none => if c = fin then some 1 else none
    else if c = fin then some 1 else none

/-- the input follows an ESC: number of characters of a match of `\[ class* final` at its head -/
def matchAfterEsc (k : CharClass) (fin : Char) : List Char → Option Nat
  | [] => none
  | b :: rest => if b = '[' then (matchBody k fin rest).map (· + 1) else none

/-- `re.sub(pattern, "", text)`; `skip` = characters of the current match still to be dropped -/
def stripGo (k : CharClass) (fin : Char) : Nat → List Char → List Char
  | _, [] => []
  | skip + 1, _ :: cs => stripGo k fin skip cs
  | 0, c :: cs =>
    if c = ESC then
      match matchAfterEsc k fin cs with
      | some n => stripGo k fin n cs
      | none => c :: stripGo k fin 0 cs
    else c :: stripGo k fin 0 cs

def strip (k : CharClass) (fin : Char) (s : List Char) : List Char := stripGo k fin 0 s

/-! ## the terminal (specification) -/

inductive Colour where
  | dflt                 -- the terminal's default colour
  | basic (k : Nat)      -- one of the eight standard colours (SGR 30+k / 40+k)
  | idx (n : Nat)        -- entry n of the 256-colour palette (SGR 38:5:n / 48:5:n)
  deriving Repr, DecidableEq

structure Attr where
  fg : Colour
  bg : Colour
  bold : Bool
  faint : Bool
  underline : Bool
  blink : Bool
  crossed : Bool
  deriving Repr, DecidableEq

def Attr.default : Attr := ⟨.dflt, .dflt, false, false, false, false, false⟩

inductive Action where
  | reset
  | bold (b : Bool) | faint (b : Bool) | boldFaintOff
  | underline (b : Bool) | blink (b : Bool) | crossed (b : Bool)
  | fg (c : Colour) | bg (c : Colour)
  deriving Repr, DecidableEq

def Action.apply : Action → Attr → Attr
  | .reset, _ => Attr.default
  | .bold b, a => { a with bold := b }
  | .faint b, a => { a with faint := b }
  | .boldFaintOff, a => { a with bold := false, faint := false }
  | .underline b, a => { a with underline := b }
  | .blink b, a => { a with blink := b }
  | .crossed b, a => { a with crossed := b }
  | .fg c, a => { a with fg := c }
  | .bg c, a => { a with bg := c }

/-- split at every `sep` (`cur` = characters of the current field read so far) -/
def splitGo (sep : Char) : List Char → List Char → List (List Char)
  | cur, [] => [cur]
  | cur, c :: cs => if c = sep then cur :: splitGo sep [] cs else splitGo sep (cur ++ [c]) cs

/-- one SGR parameter (possibly with `:` sub-parameters) -/
def parseParam (p : List Char) : Option Action :=
  match splitGo ':' [] p with
  | [x] =>
    match (match x with | [] => some 0 | _ :: _ => parseDec x) with
    | none => none
    | some n =>
      if n = 0 then some .reset
      else if n = 1 then some (.bold true)
      else if n = 2 then some (.faint true)
      else if n = 4 then some (.underline true)
      else if n = 5 then some (.blink true)
      else if n = 9 then some (.crossed true)
      else if n = 22 then some .boldFaintOff
      else if n = 24 then some (.underline false)
      else if n = 25 then some (.blink false)
      else if n = 29 then some (.crossed false)
      else if 30 ≤ n ∧ n ≤ 37 then some (.fg (.basic (n - 30)))
      else if n = 39 then some (.fg .dflt)
      else if 40 ≤ n ∧ n ≤ 47 then some (.bg (.basic (n - 40)))
      else if n = 49 then some (.bg .dflt)
      else none
  | [x, y, z] =>
    match parseDec x, parseDec y, parseDec z with
    | some a, some b, some n =>
      if b = 5 ∧ n ≤ 255 then
        if a = 38 then some (.fg (.idx n))
        else if a = 48 then some (.bg (.idx n))
        else none
      else none
    | _, _, _ => none
  | _ => none

def applyParams : List (List Char) → Attr → Option Attr
  | [], a => some a
  | p :: ps, a =>
    match parseParam p with
    | some act => applyParams ps (act.apply a)
    | none => none

/-- the parameter string between `ESC [` and `m` -/
def applySgr (buf : List Char) (a : Attr) : Option Attr :=
  applyParams (splitGo ';' [] buf) a

def isParamChar (c : Char) : Bool := isAsciiDigit c || c = ';' || c = ':'

inductive PState where
  | ground
  | esc
  | csi (buf : List Char)
  deriving Repr, DecidableEq

/-- what the terminal shows (character, attributes) and the attributes it is left with -/
def run : PState → Attr → List Char → Option (List (Char × Attr) × Attr)
  | .ground, a, [] => some ([], a)
  | .esc, _, [] => none
  | .csi _, _, [] => none
  | .ground, a, c :: cs =>
    if c = ESC then run .esc a cs
    else
      match run .ground a cs with
      | some (cells, fin) => some ((c, a) :: cells, fin)
      | none => none
  | .esc, a, c :: cs => if c = '[' then run (.csi []) a cs else none
  | .csi buf, a, c :: cs =>
    if c = 'm' then
      match applySgr buf a with
      | some a' => run .ground a' cs
      | none => none
    else if isParamChar c then run (.csi (buf ++ [c])) a cs
    else none

/-- a terminal in default state receives `s` -/
def interp (s : List Char) : Option (List (Char × Attr) × Attr) := run .ground Attr.default s

/-! ## several calls in one process -/

/-- one request to the package: construct a formatter and apply it (`ColorFmt(...)(text)`,
`ColorBytes(...)(bytes)`), or apply an earlier formatter object again -/
inductive Call where
  | fmt (s : Spec) (t : List Char)
  | bytes (s : Spec) (b : List UInt8)
  | again (k : Nat) (t : List Char)        -- the object made by call number `k` (0-based)
  | plain (t : List Char)                  -- `ColorFmt.get_plaintext_fmt()(text)` (a cached `ColorFmt(None)`)
  deriving Repr

inductive CallResult where
  | str (s : List Char)
  | bytes (b : List UInt8)
  | err (e : Err)
  | noObject                               -- `again k`: call `k` made no `ColorFmt` object
  deriving Repr, DecidableEq

/-- the arguments of `ColorFmt(None)` -/
def plainSpec : Spec := ⟨.none, .none, .none, .none, .none, .none, .none, .bool false⟩

/-- a `ColorFmt` object is its prefix/suffix pair -/
abbrev FmtObj := List Char × List Char

def callFmt (cfg : SgrCfg) (s : Spec) (t : List Char) : CallResult × Option FmtObj :=
  match mkSeq cfg s with
  | .ok (p, q) => (.str (p ++ t ++ q), some (p, q))
  | .error e => (.err e, none)

def callBytes (cfg : SgrCfg) (s : Spec) (b : List UInt8) : CallResult :=
  match mkSeqBytes cfg s with
  | .ok (p, q) => .bytes (p ++ b ++ q)
  | .error e => .err e

def callAgain (objs : List (Option FmtObj)) (k : Nat) (t : List Char) : CallResult :=
  match objs[k]? with
  | some (some (p, q)) => .str (p ++ t ++ q)
  | _ => .noObject

/-- the calls of one process in order; `objs` = the objects made so far (one entry per call).
Nothing else is carried from one call to the next: the package keeps no state between calls. -/
def runCalls (cfg : SgrCfg) (objs : List (Option FmtObj)) : List Call → List CallResult
  | [] => []
  | .fmt s t :: rest =>
    let (r, o) := callFmt cfg s t
    r :: runCalls cfg (objs ++ [o]) rest
  | .bytes s b :: rest => callBytes cfg s b :: runCalls cfg (objs ++ [none]) rest
  | .again k t :: rest => callAgain objs k t :: runCalls cfg (objs ++ [none]) rest
  | .plain t :: rest => (callFmt cfg plainSpec t).1 :: runCalls cfg (objs ++ [none]) rest


/-! ## what was requested (specification) -/

/-- position = number of the standard colour (ECMA-48: 30+k foreground, 40+k background) -/
def stdNames : List (List Char) :=
  ["BLACK".toList, "RED".toList, "GREEN".toList, "YELLOW".toList, "BLUE".toList,
   "MAGENTA".toList, "CYAN".toList, "WHITE".toList]

def nameIndex : List (List Char) → List Char → Option Nat
  | [], _ => none
  | n :: rest, s => if n = s then some 0 else (nameIndex rest s).map (· + 1)

/-- the components when all of them are `int`s -/
def intsOf : List Num → Option (List Int)
  | [] => some []
  | .int n :: rest => (intsOf rest).map (n :: ·)
  | .flt _ _ :: _ => none
  | .other :: _ => none

/-- the documented colour grammar: `None`, the eight names, `0..255`, `(r,g,b)` (tuple or list) with `int` components in
`0..5` ↦ `16+36r+6g+b`, `g<N>` with `N ≤ 23` ↦ `232+N`; `none` = not a colour -/
def wantedColour : ColorSpec → Option Colour
  | .none => some .dflt
  | .str s =>
    match nameIndex stdNames s with
    | some k => some (.basic k)
    | none =>
      match s with
      | 'g' :: ds =>
        match parseDec ds with
        | some n => if n ≤ 23 then some (.idx (232 + n)) else none
        | none => none
      | _ => none
  | .int n => if 0 ≤ n ∧ n ≤ 255 then some (.idx n.toNat) else none
  | .tuple _ xs =>
    match intsOf xs with
    | some [r, g, b] =>
      if 0 ≤ r ∧ r ≤ 5 ∧ 0 ≤ g ∧ g ≤ 5 ∧ 0 ≤ b ∧ b ≤ 5 then some (.idx (16 + 36 * r + 6 * g + b).toNat)
      else none
    | _ => none
  | .float _ _ => none
  | .other => none

/-- attributes requested from a formatter; `none` = one of the colour values is invalid -/
def wantedAttr (s : Spec) : Option Attr :=
  if s.noColor then some Attr.default
  else
    match wantedColour s.fg, wantedColour s.bg with
    | some f, some b =>
      some ⟨f, b, truthy s.bold, truthy s.faint, truthy s.underline, truthy s.blink, truthy s.crossed⟩
    | _, _ => none

/-- a text free of escape characters -/
def NoEsc (t : List Char) : Prop := ∀ c ∈ t, c ≠ ESC

/-- what should be on the screen for a list of (formatter arguments, text) parts -/
def wantedCells : List (Spec × List Char) → Option (List (Char × Attr))
  | [] => some []
  | (s, t) :: rest =>
    match wantedAttr s, wantedCells rest with
    | some a, some cells => some (t.map (fun c => (c, a)) ++ cells)
    | _, _ => none

end Sgr
