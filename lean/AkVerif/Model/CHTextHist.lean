import AkVerif.Model.CHText
/-!
Histories over several `CHText` objects (C08, quantifier "histories").

The value model (`CHText.eval`) has no object identity. Here objects live in a store
(`Store = List Text`, object id = position); an operand may mention an object by id (`RPart.obj`).

* Every operation except `+=` allocates: the new object is put at the end of the store and nothing
  else changes (`__add__`, `__radd__`, `join`, `__getitem__`, `fixed_len`, the constructor build a
  fresh `CHText()` and fill it with `+=`; chunk objects are immutable, so no list is shared).
  Their operands are read before anything is written, so they are computed by the value-level
  functions on the resolved operands.
* `o_k += part` writes object `k` in place. A list / tuple operand is processed element by element
  (`for part in other: self += part`), and an element that is an object is read *when its turn
  comes* (`list(other.chunks)`, the snapshot of fix 6257f6b): `t += t` doubles the text,
  `t += [t, t]` gives four copies.
* There is no cached rendering in the model: everything observed (`str`, `format`, `plain_text`,
  `len`) is a function of the current store. The tie re-observes every object after every
  statement, which is where a stale cache in the real class shows up.
-/
namespace CHText
open Ak

abbrev Store := List Text

/-- an operand that may mention objects of the store -/
inductive RPart where
  | str (s : List Char)
  | chunk (c : Chunk)
  | obj (id : Nat)
  | list (tuple : Bool) (ps : List RPart)
  deriving Repr

inductive Stmt where
  | new (args : List RPart)                          -- `o_n = CHText(*args)`
  | iadd (tgt : Nat) (p : RPart)                     -- `o_tgt += p`
  | add (a : Nat) (p : RPart)                        -- `o_n = o_a + p`
  | radd (a : Nat) (p : RPart)                       -- `o_n = p + o_a`   (p a str, list or tuple)
  | join (sep : Nat) (items : List RPart)            -- `o_n = o_sep.join([...])`
  | slice (a : Nat) (i j : Option Int)               -- `o_n = o_a[i:j]`
  | idx (a : Nat) (i : Int)                          -- `o_n = o_a[i]`
  | fixedLen (a : Nat) (n : Int)                     -- `o_n = o_a.fixed_len(n)`
  deriving Repr

/-- a reference to an object that does not exist: the harness never sends one -/
def getObj (st : Store) (id : Nat) : Except Fail Text :=
  match st[id]? with
  | some t => .ok t
  | none => .error .unmodelled

mutual
/-- the operand as a value, objects read now -/
def resolve (st : Store) : RPart → Except Fail Part
  | .str s => .ok (.str s)
  | .chunk c => .ok (.chunk c)
  | .obj id => do
    let t ← getObj st id
    .ok (.text t)
  | .list tp ps => do
    let qs ← resolveList st ps
    .ok (.list tp qs)
def resolveList (st : Store) : List RPart → Except Fail (List Part)
  | [] => .ok []
  | p :: ps => do
    let q ← resolve st p
    let qs ← resolveList st ps
    .ok (q :: qs)
end

mutual
/-- `o_tgt += p` in place: list elements one after the other, each object read at its turn -/
def sIadd (st : Store) (tgt : Nat) : RPart → Except Fail Store
  | .str s => do
    let t ← getObj st tgt
    .ok (st.set tgt (appendChunk t ⟨0, s⟩))
  | .chunk c => do
    let t ← getObj st tgt
    .ok (st.set tgt (appendChunk t c))
  | .obj id => do
    let t ← getObj st tgt
    let o ← getObj st id
    .ok (st.set tgt (appendChunks t o.chunks))
  | .list _ ps => sIaddList st tgt ps
def sIaddList (st : Store) (tgt : Nat) : List RPart → Except Fail Store
  | [] => do
    let _ ← getObj st tgt
    .ok st
  | p :: ps => do
    let st' ← sIadd st tgt p
    sIaddList st' tgt ps
end

/-- one statement -/
def exec (st : Store) : Stmt → Except Fail Store
  | .new args => do
    let ps ← resolveList st args
    .ok (st ++ [construct ps])
  | .iadd tgt p => sIadd st tgt p
  | .add a p => do
    let t ← getObj st a
    let q ← resolve st p
    .ok (st ++ [t.add q])
  | .radd a p => do
    let t ← getObj st a
    let q ← resolve st p
    match q with
    | .str _ => .ok (st ++ [radd (.text t) q])
    | .list _ _ => .ok (st ++ [radd (.text t) q])
    | _ => .error .unmodelled
  | .join sep items => do
    let t ← getObj st sep
    let qs ← resolveList st items
    .ok (st ++ [t.join qs])
  | .slice a i j => do
    let t ← getObj st a
    .ok (st ++ [t.getSlice i j])
  | .idx a i => do
    let t ← getObj st a
    match t.getIndex i with
    | .ok r => .ok (st ++ [r])
    | .error e => .error (.py e)
  | .fixedLen a n => do
    let t ← getObj st a
    .ok (st ++ [t.fixedLen n])

/-- a history: the stores after each statement; a statement that raises leaves the store as it
was (the assignment does not happen) and the history goes on -/
def run (st : Store) : List Stmt → List (Except Fail Store)
  | [] => []
  | s :: rest =>
    match exec st s with
    | .ok st' => .ok st' :: run st' rest
    | .error e => .error e :: run st rest

end CHText
