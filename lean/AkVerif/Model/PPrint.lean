import AkVerif.Model.Common
import AkVerif.Gen.C11
/-!
Model of `PrettyPrinter` in `/repo/ak/ppobj.py` (C11), generic in the keyword table (`Consts`) and in
the layout numbers (`Limits`); the values read from the source (`Gen.C11`) are plugged in at the
property level and in the driver.

* `J`            — a JSON-like value. `int n` is a Python int (its text is computed by `showInt`,
                   the model of `str(int)`: decimal digits, `-` for negatives); `num t` carries the
                   text `str(value)` of a float (supplied by the harness, never re-implemented);
                   `dict` is the list of items in insertion order.
* `simple?`      — `_value_is_simple` together with the case analysis of `_simple_val_to_ch_chunk`
                   (a value is simple unless it is a non-empty list / dict); `simpleChunk` is the
                   text of the chunk. The function is total on `Simple`, so the `assert False` of
                   the code is unreachable by construction.
* `sortE`        — `sorted(keys, key=_mk_type_sort_value)`: a stable sort by `kLt` — int keys (by
                   value), then string keys (code-point-lexicographic, `keyLt`), then `True` /
                   `False` / `None` keys (by their `str()`). Float and tuple keys are not modelled.
* `gen`          — `_gen_ch_chunks_for_obj`: the list of chunks, `none` = the new-line marker.
                   Three layouts for a list (one line / wrapped / one item per line), two for a dict.
                   The recursive calls are made on the items in insertion order and the rendered
                   entries are sorted afterwards; the rendering of an entry does not depend on its
                   position, so this is the same list as "sort, then render" of the code.
* `groupLines`   — `_gen_ch_lines`; `text` — `plain_text()` of the joined result.
* `lex`/`parseV`/`read` — the specification side: a whitespace-skipping reader of the JSON-like
                   syntax (strings without `"`, `\`, control characters; numbers by the JSON grammar, kept as text).
-/
namespace PPrint

/-! ## values -/

inductive Kw where
  | tt | ff | nul
  deriving DecidableEq, Repr

/-- a dict key: a string (the only kind JSON has), or — Python mode only — an int or one of
`True` / `False` / `None` -/
inductive Key where
  | str (s : List Char)
  | int (n : Int)
  | kw (k : Kw)
  deriving DecidableEq, Repr

inductive J where
  | str (s : List Char)
  | int (n : Int)
  | num (t : List Char)
  | kw (k : Kw)
  | list (xs : List J)
  | dict (kvs : List (Key × J))
  deriving Repr

/-- `_CONSTANTS_LITERALS[i]` -/
structure Consts where
  tt : List Char
  ff : List Char
  nul : List Char
  /-- JSON mode: only strings are keys (the reader refuses other keys; values with other keys are
  outside the domain of that mode) -/
  strKeys : Bool

def Consts.lit (c : Consts) : Kw → List Char
  | .tt => c.tt
  | .ff => c.ff
  | .nul => c.nul

/-- numbers of the layout, read from the source by the translator -/
structure Limits where
  /-- `offset + scr_len < …` in the dict branch -/
  oneLineDict : Nat
  /-- `offset + scr_len < …` in the list branch -/
  oneLineList : Nat
  /-- `len_yielded + cur_chunk_len > …` -/
  wrap : Nat
  /-- `offset + …` (indentation step) -/
  indent : Nat

/-- the syntax class of a chunk: which method of the palette made it (`cp.text`, `cp.name`,
`cp.number`, `cp.keyword`); C11 is about the text only, C10 colours the chunks by this class -/
inductive Kind where
  | text | name | number | keyword
  deriving DecidableEq, Repr

/-- a `CHText.Chunk`: syntax class and text -/
structure Chunk where
  kind : Kind
  text : List Char
  deriving DecidableEq, Repr

/-- `cp.text(t)` -/
def plain (t : List Char) : Chunk := ⟨.text, t⟩

/-! ## simple values -/

inductive Simple where
  | str (s : List Char)
  | int (n : Int)
  | num (t : List Char)
  | kw (k : Kw)
  | emptyList
  | emptyDict

def J.simple? : J → Option Simple
  | .str s => some (.str s)
  | .int n => some (.int n)
  | .num t => some (.num t)
  | .kw k => some (.kw k)
  | .list [] => some .emptyList
  | .dict [] => some .emptyDict
  | .list (_ :: _) => none
  | .dict (_ :: _) => none

/-- `_all_values_are_simple` for a list, returning the classified items -/
def allSimple? : List J → Option (List Simple)
  | [] => some []
  | x :: xs =>
    match x.simple?, allSimple? xs with
    | some s, some ss => some (s :: ss)
    | _, _ => none

/-- `_all_values_are_simple` for a dict -/
def allSimpleD? : List (Key × J) → Option (List (Key × Simple))
  | [] => some []
  | (k, v) :: r =>
    match v.simple?, allSimpleD? r with
    | some s, some ss => some ((k, s) :: ss)
    | _, _ => none

/-! `str(int)`: decimal digits, most significant first, no leading zero, `-` for negatives -/

def digitChar (d : Nat) : Char := Char.ofNat (48 + d)

/-- decimal digits, least significant first; `lsDigits n n` is the whole number (fuel `n` suffices) -/
def lsDigits : Nat → Nat → List Nat
  | 0, _ => []
  | f + 1, n => if n = 0 then [] else (n % 10) :: lsDigits f (n / 10)

def showNat (n : Nat) : List Char :=
  if n = 0 then ['0'] else (lsDigits n n).reverse.map digitChar

def showInt : Int → List Char
  | .ofNat n => showNat n
  | .negSucc n => '-' :: showNat (n + 1)

def quoted (s : List Char) : List Char := '"' :: (s ++ ['"'])

/-- `_simple_val_to_ch_chunk(...).text` -/
def simpleChunk (c : Consts) : Simple → Chunk
  | .str s => plain (quoted s)
  | .int n => ⟨.number, showInt n⟩
  | .num t => ⟨.number, t⟩
  | .kw k => ⟨.keyword, c.lit k⟩
  | .emptyList => plain ['[', ']']
  | .emptyDict => plain ['{', '}']

/-- Python's `str()` of `True` / `False` / `None` (what `_dict_key_to_sc_chunk` prints for such a
key in both modes; it does not consult the keyword table) -/
def kwStr : Kw → List Char
  | .tt => ['T', 'r', 'u', 'e']
  | .ff => ['F', 'a', 'l', 's', 'e']
  | .nul => ['N', 'o', 'n', 'e']

/-- `'"' + key + '"' if isinstance(key, str) else str(key)` -/
def keyText : Key → List Char
  | .str s => quoted s
  | .int n => showInt n
  | .kw k => kwStr k

/-- `_dict_key_to_sc_chunk` -/
def keyChunk (k : Key) : Chunk := ⟨.name, keyText k⟩

def spaces (n : Nat) : List Char := List.replicate n ' '

/-- `CHText.calc_chunks_len` -/
def chunksLen : List Chunk → Nat
  | [] => 0
  | ch :: r => ch.text.length + chunksLen r

/-! ## key order -/

/-- Python's `<` on `str`: lexicographic by code point -/
def keyLt : List Char → List Char → Bool
  | [], [] => false
  | [], _ :: _ => true
  | _ :: _, [] => false
  | a :: as, b :: bs => if a = b then keyLt as bs else decide (a.toNat < b.toNat)

/-- first component of `_mk_type_sort_value`: numbers, then strings, (then tuples,) then keywords -/
def Key.rank : Key → Nat
  | .int _ => 0
  | .str _ => 1
  | .kw _ => 3

/-- `_mk_type_sort_value(a) < _mk_type_sort_value(b)`: by rank, then numbers by value, strings by
code point, keywords by their `str()` -/
def kLt : Key → Key → Bool
  | .int a, .int b => decide (a < b)
  | .str a, .str b => keyLt a b
  | .kw a, .kw b => keyLt (kwStr a) (kwStr b)
  | a, b => decide (a.rank < b.rank)

/-- stable insertion: `e` goes before the first entry whose key is not smaller -/
def insertE {α : Type} (e : Key × α) : List (Key × α) → List (Key × α)
  | [] => [e]
  | f :: r => if kLt f.1 e.1 then f :: insertE e r else e :: f :: r

def sortE {α : Type} : List (Key × α) → List (Key × α)
  | [] => []
  | e :: r => insertE e (sortE r)

/-! ## layouts -/

/-- items of a one-line container separated by `", "` -/
def sepItems : Bool → List (List (Option Chunk)) → List (Option Chunk)
  | _, [] => []
  | first, it :: r => (if first then [] else [some (plain [',', ' '])]) ++ it ++ sepItems false r

/-- one item per line: `[","] NL prefix item` -/
def multiBody (pre : List Char) : Bool → List (List (Option Chunk)) → List (Option Chunk)
  | _, [] => []
  | first, it :: r =>
    (if first then [] else [some (plain [','])]) ++ [none, some (plain pre)] ++ it ++ multiBody pre false r

def multiLine (L : Limits) (o cl : Char) (off : Nat) (subs : List (List (Option Chunk))) :
    List (Option Chunk) :=
  some (plain [o]) ::
    (multiBody (spaces (off + L.indent)) true subs ++ [none, some (plain (spaces off ++ [cl]))])

/-- the loop of the wrapped layout; `ly` = `len_yielded`, `first` = `is_first_in_line`.
The loop leaves through `break` at the last item, after the new-line marker. -/
def wrapItems (L : Limits) (off : Nat) : List Chunk → Nat → Bool → List (Option Chunk)
  | [], _, _ => []
  | it :: rest, ly, first =>
    let cur := it.text.length
    let brk := decide (ly + cur > L.wrap) && !first
    let first' := first || brk
    let ly' := if brk then 0 else ly
    let ly'' := if first' then off + L.indent else ly' + 2
    (if brk then [some (plain [',']), none] else []) ++
    [some (plain (if first' then spaces (off + L.indent) else [',', ' '])), some it] ++
    (match rest with
     | [] => [none]
     | _ :: _ => wrapItems L off rest (ly'' + cur) false)

def wrappedList (L : Limits) (off : Nat) (items : List Chunk) : List (Option Chunk) :=
  [some (plain ['[']), none] ++ wrapItems L off items 0 true ++ [some (plain (spaces off ++ [']']))]

/-- a dict entry in the one-line layout: key, `": "`, value -/
def entryChunks (k : Key) (val : List (Option Chunk)) : List (Option Chunk) :=
  some (keyChunk k) :: some (plain [':', ' ']) :: val

def optLen : List (Option Chunk) → Nat
  | [] => 0
  | none :: r => optLen r
  | some ch :: r => ch.text.length + optLen r

def renderList (c : Consts) (L : Limits) (off : Nat) (xs : List J)
    (subs : List (List (Option Chunk))) : List (Option Chunk) :=
  match xs with
  | [] => [some (simpleChunk c .emptyList)]
  | _ :: _ =>
    match allSimple? xs with
    | some ss =>
      let items := ss.map (simpleChunk c)
      if off + (chunksLen items + 2 * items.length) < L.oneLineList then
        some (plain ['[']) :: (sepItems true (items.map fun it => [some it]) ++ [some (plain [']'])])
      else wrappedList L off items
    | none => multiLine L '[' ']' off subs

def renderDict (c : Consts) (L : Limits) (off : Nat) (kvs : List (Key × J))
    (subs : List (Key × List (Option Chunk))) : List (Option Chunk) :=
  match kvs with
  | [] => [some (simpleChunk c .emptyDict)]
  | _ :: _ =>
    let multi := multiLine L '{' '}' off ((sortE subs).map fun e => entryChunks e.1 e.2)
    match allSimpleD? kvs with
    | some ss =>
      let chunks := some (plain ['{']) ::
        (sepItems true ((sortE ss).map fun e => entryChunks e.1 [some (simpleChunk c e.2)]) ++
          [some (plain ['}'])])
      if off + optLen chunks < L.oneLineDict then chunks else multi
    | none => multi

mutual
/-- `_gen_ch_chunks_for_obj(cp, v, offset)` as a list; `none` is the new-line marker -/
def gen (c : Consts) (L : Limits) : J → Nat → List (Option Chunk)
  | .str s, _ => [some (simpleChunk c (.str s))]
  | .int n, _ => [some (simpleChunk c (.int n))]
  | .num t, _ => [some (simpleChunk c (.num t))]
  | .kw k, _ => [some (simpleChunk c (.kw k))]
  | .list xs, off => renderList c L off xs (genList c L xs (off + L.indent))
  | .dict kvs, off => renderDict c L off kvs (genEntries c L kvs (off + L.indent))
def genList (c : Consts) (L : Limits) : List J → Nat → List (List (Option Chunk))
  | [], _ => []
  | x :: xs, off => gen c L x off :: genList c L xs off
def genEntries (c : Consts) (L : Limits) :
    List (Key × J) → Nat → List (Key × List (Option Chunk))
  | [], _ => []
  | (k, v) :: r, off => (k, gen c L v off) :: genEntries c L r off
end

/-- `plain_text()` of the whole result: chunk texts, the marker is a line feed -/
def text : List (Option Chunk) → List Char
  | [] => []
  | none :: r => '\n' :: text r
  | some ch :: r => ch.text ++ text r

/-- `_gen_ch_lines`: a line is closed at every marker; what is left is a line if it has chunks -/
def groupLinesGo : List Chunk → List (Option Chunk) → List (List Chunk)
  | acc, [] => if acc.isEmpty then [] else [acc]
  | acc, none :: r => acc :: groupLinesGo [] r
  | acc, some ch :: r => groupLinesGo (acc ++ [ch]) r

def groupLines (cs : List (Option Chunk)) : List (List Chunk) := groupLinesGo [] cs

/-- `line.plain_text()` -/
def lineText (l : List Chunk) : List Char := (l.map (·.text)).flatten

/-- `"\n".join(line.plain_text() for line in lines)` -/
def joinLines : List (List Chunk) → List Char
  | [] => []
  | [l] => lineText l
  | l :: m :: r => lineText l ++ '\n' :: joinLines (m :: r)

/-! ## the value the printer is expected to denote: dict entries in sorted key order -/

mutual
def norm : J → J
  | .str s => .str s
  | .int n => .int n
  | .num t => .num t
  | .kw k => .kw k
  | .list xs => .list (normList xs)
  | .dict kvs => .dict (sortE (normEntries kvs))
def normList : List J → List J
  | [] => []
  | x :: xs => norm x :: normList xs
def normEntries : List (Key × J) → List (Key × J)
  | [] => []
  | (k, v) :: r => (k, norm v) :: normEntries r
end

/-! ## the reader (specification side) -/

inductive Tok where
  | lbrack | rbrack | lbrace | rbrace | comma | colon
  | str (s : List Char)
  | int (n : Int)
  | num (t : List Char)
  | kw (k : Kw)
  deriving DecidableEq, Repr

def isWs (ch : Char) : Bool := ch = ' ' || ch = '\n'
/-- characters a string may contain unescaped (JSON: no quote, backslash, control character) -/
def strOk (ch : Char) : Bool := ch != '"' && ch != '\\' && decide (32 ≤ ch.toNat)
def isDigit (ch : Char) : Bool := decide ('0'.toNat ≤ ch.toNat) && decide (ch.toNat ≤ '9'.toNat)
def numStart (ch : Char) : Bool := isDigit ch || ch = '-'
def numChar (ch : Char) : Bool := isDigit ch || ch = '-' || ch = '+' || ch = '.' || ch = 'e' || ch = 'E'
def isLetter (ch : Char) : Bool :=
  (decide ('a'.toNat ≤ ch.toNat) && decide (ch.toNat ≤ 'z'.toNat)) ||
  (decide ('A'.toNat ≤ ch.toNat) && decide (ch.toNat ≤ 'Z'.toNat))
/-- what may follow a number or a keyword -/
def isDelim (ch : Char) : Bool := isWs ch || ch = ',' || ch = ']' || ch = '}' || ch = ':'

/-- states of the JSON number grammar `-? (0 | [1-9][0-9]*) (. [0-9]+)? ([eE] [+-]? [0-9]+)?` -/
inductive NSt where
  | start | minus | zero | int | dot | frac | e | esign | exp

def nstep : NSt → Char → Option NSt
  | .start, ch => if ch = '-' then some .minus else if ch = '0' then some .zero
                  else if isDigit ch then some .int else none
  | .minus, ch => if ch = '0' then some .zero else if isDigit ch then some .int else none
  | .zero, ch => if ch = '.' then some .dot else if ch = 'e' || ch = 'E' then some .e else none
  | .int, ch => if isDigit ch then some .int else if ch = '.' then some .dot
                else if ch = 'e' || ch = 'E' then some .e else none
  | .dot, ch => if isDigit ch then some .frac else none
  | .frac, ch => if isDigit ch then some .frac else if ch = 'e' || ch = 'E' then some .e else none
  | .e, ch => if ch = '+' || ch = '-' then some .esign else if isDigit ch then some .exp else none
  | .esign, ch => if isDigit ch then some .exp else none
  | .exp, ch => if isDigit ch then some .exp else none

def nrun : NSt → List Char → Option NSt
  | s, [] => some s
  | s, ch :: r =>
    match nstep s ch with
    | some s' => nrun s' r
    | none => none

def naccept : NSt → Bool
  | .zero | .int | .frac | .exp => true
  | _ => false

/-- the text is a JSON number (what `str()` prints for a finite int / float) -/
def numOk (t : List Char) : Bool :=
  match nrun .start t with
  | some s => naccept s
  | none => false

/-- value of a run of decimal digits -/
def decVal (cs : List Char) : Nat := cs.foldl (fun a ch => 10 * a + (ch.toNat - 48)) 0

/-- the integer a number text denotes when it is `-? digits` (no fraction, no exponent) -/
def intOf? : List Char → Option Int
  | [] => none
  | ch :: r =>
    if ch = '-' then
      (if !r.isEmpty && r.all isDigit then some (-(decVal r : Int)) else none)
    else if (ch :: r).all isDigit then some (decVal (ch :: r) : Int) else none

/-- the token of a number text: an integer when it is one, the text otherwise (a float) -/
def numTok (t : List Char) : Tok :=
  match intOf? t with
  | some n => .int n
  | none => .num t

def kwOf (c : Consts) (w : List Char) : Option Kw :=
  if w = c.tt then some .tt else if w = c.ff then some .ff else if w = c.nul then some .nul else none

inductive LState where
  | idle
  | inStr (acc : List Char)
  | inNum (acc : List Char)
  | inWord (acc : List Char)

/-- a character met when no token is open -/
def idleStep (ch : Char) : Option (LState × List Tok) :=
  if isWs ch then some (.idle, [])
  else if ch = '[' then some (.idle, [.lbrack])
  else if ch = ']' then some (.idle, [.rbrack])
  else if ch = '{' then some (.idle, [.lbrace])
  else if ch = '}' then some (.idle, [.rbrace])
  else if ch = ',' then some (.idle, [.comma])
  else if ch = ':' then some (.idle, [.colon])
  else if ch = '"' then some (.inStr [], [])
  else if numStart ch then some (.inNum [ch], [])
  else if isLetter ch then some (.inWord [ch], [])
  else none

def closeWith (t : Tok) (ch : Char) : Option (LState × List Tok) :=
  if isDelim ch then
    match idleStep ch with
    | some (s, ts) => some (s, t :: ts)
    | none => none
  else none

def step (c : Consts) : LState → Char → Option (LState × List Tok)
  | .idle, ch => idleStep ch
  | .inStr acc, ch =>
    if ch = '"' then some (.idle, [.str acc.reverse])
    else if strOk ch then some (.inStr (ch :: acc), [])
    else none
  | .inNum acc, ch =>
    if numChar ch then some (.inNum (ch :: acc), [])
    else if numOk acc.reverse then closeWith (numTok acc.reverse) ch
    else none
  | .inWord acc, ch =>
    if isLetter ch then some (.inWord (ch :: acc), [])
    else match kwOf c acc.reverse with
      | some k => closeWith (.kw k) ch
      | none => none

def finish (c : Consts) : LState → Option (List Tok)
  | .idle => some []
  | .inStr _ => none
  | .inNum acc => if numOk acc.reverse then some [numTok acc.reverse] else none
  | .inWord acc =>
    match kwOf c acc.reverse with
    | some k => some [.kw k]
    | none => none

def lexGo (c : Consts) : LState → List Char → Option (List Tok)
  | s, [] => finish c s
  | s, ch :: cs =>
    match step c s ch with
    | none => none
    | some (s', ts) =>
      match lexGo c s' cs with
      | none => none
      | some r => some (ts ++ r)

def lex (c : Consts) (cs : List Char) : Option (List Tok) := lexGo c .idle cs

/-- the token a key is read from -/
def keyTok : Key → Tok
  | .str s => .str s
  | .int n => .int n
  | .kw k => .kw k

/-- the key a token denotes; with `strKeys` (JSON) only strings are keys -/
def tokKey (strKeys : Bool) : Tok → Option Key
  | .str s => some (.str s)
  | .int n => if strKeys then none else some (.int n)
  | .kw k => if strKeys then none else some (.kw k)
  | _ => none

/-- the token list without its first token, when that token is `t` -/
def dropTok (t : Tok) : List Tok → Option (List Tok)
  | [] => none
  | x :: r => if x = t then some r else none

mutual
/-- recursive descent over tokens; `none` = syntax error (or fuel exhausted: `read` gives enough).
`sk` = only strings are keys (JSON). -/
def parseV (sk : Bool) : Nat → List Tok → Option (J × List Tok)
  | 0, _ => none
  | _ + 1, [] => none
  | _ + 1, .str s :: r => some (.str s, r)
  | _ + 1, .int n :: r => some (.int n, r)
  | _ + 1, .num t :: r => some (.num t, r)
  | _ + 1, .kw k :: r => some (.kw k, r)
  | f + 1, .lbrack :: r =>
    match dropTok .rbrack r with
    | some r' => some (.list [], r')
    | none =>
      match parseItems sk f r with
      | some (xs, r') => some (.list xs, r')
      | none => none
  | f + 1, .lbrace :: r =>
    match dropTok .rbrace r with
    | some r' => some (.dict [], r')
    | none =>
      match parseEntries sk f r with
      | some (kvs, r') => some (.dict kvs, r')
      | none => none
  | _ + 1, .rbrack :: _ => none
  | _ + 1, .rbrace :: _ => none
  | _ + 1, .comma :: _ => none
  | _ + 1, .colon :: _ => none
/-- `value ("," value)* "]"` -/
def parseItems (sk : Bool) : Nat → List Tok → Option (List J × List Tok)
  | 0, _ => none
  | f + 1, ts =>
    match parseV sk f ts with
    | some (v, .comma :: r) =>
      match parseItems sk f r with
      | some (vs, r') => some (v :: vs, r')
      | none => none
    | some (v, .rbrack :: r) => some ([v], r)
    | _ => none
/-- `key ":" value ("," key ":" value)* "}"` -/
def parseEntries (sk : Bool) : Nat → List Tok → Option (List (Key × J) × List Tok)
  | 0, _ => none
  | _ + 1, [] => none
  | _ + 1, [_] => none
  | f + 1, t :: t2 :: ts =>
    if t2 = .colon then
      match tokKey sk t with
      | none => none
      | some k =>
        match parseV sk f ts with
        | some (v, .comma :: r) =>
          match parseEntries sk f r with
          | some (kvs, r') => some ((k, v) :: kvs, r')
          | none => none
        | some (v, .rbrace :: r) => some ([(k, v)], r)
        | _ => none
    else none
end

def parse (sk : Bool) (ts : List Tok) : Option J :=
  match parseV sk (ts.length + 1) ts with
  | some (v, []) => some v
  | _ => none

/-- the reader: text → value -/
def read (c : Consts) (cs : List Char) : Option J :=
  match lex c cs with
  | some ts => parse c.strKeys ts
  | none => none

/-! ## canonical token sequence of a value -/

mutual
def toks : J → List Tok
  | .str s => [.str s]
  | .int n => [.int n]
  | .num t => [.num t]
  | .kw k => [.kw k]
  | .list xs => .lbrack :: (toksList true xs ++ [.rbrack])
  | .dict kvs => .lbrace :: (toksEntries true kvs ++ [.rbrace])
def toksList : Bool → List J → List Tok
  | _, [] => []
  | first, x :: xs => (if first then [] else [.comma]) ++ toks x ++ toksList false xs
def toksEntries : Bool → List (Key × J) → List Tok
  | _, [] => []
  | first, (k, v) :: r =>
    (if first then [] else [.comma]) ++ (keyTok k :: .colon :: toks v) ++ toksEntries false r
end

/-! ## domain -/

/-- a key of the domain: a string without quote, backslash, control characters; other keys only
when the mode has them (Python) -/
def keyOk (sk : Bool) : Key → Bool
  | .str s => s.all strOk
  | .int _ => !sk
  | .kw _ => !sk

mutual
/-- the quantifier of C11 (`sk` = JSON mode: string keys only): strings without quote, backslash,
control characters; any int; a float given by a text of the JSON number grammar that is not an
integer text -/
def WF (sk : Bool) : J → Prop
  | .str s => s.all strOk = true
  | .int _ => True
  | .num t => numOk t = true ∧ intOf? t = none
  | .kw _ => True
  | .list xs => WFList sk xs
  | .dict kvs => WFEntries sk kvs
def WFList (sk : Bool) : List J → Prop
  | [] => True
  | x :: xs => WF sk x ∧ WFList sk xs
def WFEntries (sk : Bool) : List (Key × J) → Prop
  | [] => True
  | (k, v) :: r => keyOk sk k = true ∧ WF sk v ∧ WFEntries sk r
end

mutual
/-- `WF` as a test: the driver refuses a request whose value is outside the domain (`C11.wf_checked`) -/
def wfB (sk : Bool) : J → Bool
  | .str s => s.all strOk
  | .int _ => true
  | .num t => numOk t && (intOf? t).isNone
  | .kw _ => true
  | .list xs => wfBList sk xs
  | .dict kvs => wfBEntries sk kvs
def wfBList (sk : Bool) : List J → Bool
  | [] => true
  | x :: xs => wfB sk x && wfBList sk xs
def wfBEntries (sk : Bool) : List (Key × J) → Bool
  | [] => true
  | (k, v) :: r => keyOk sk k && wfB sk v && wfBEntries sk r
end

mutual
/-- equality of values up to the order of dict entries (Python's `==` on such values) -/
inductive Eqv : J → J → Prop
  | str (s : List Char) : Eqv (.str s) (.str s)
  | int (n : Int) : Eqv (.int n) (.int n)
  | num (t : List Char) : Eqv (.num t) (.num t)
  | kw (k : Kw) : Eqv (.kw k) (.kw k)
  | list {xs ys : List J} : EqvL xs ys → Eqv (.list xs) (.list ys)
  | dict {kvs kvs' kvs'' : List (Key × J)} :
      EqvD kvs kvs' → kvs'.Perm kvs'' → Eqv (.dict kvs) (.dict kvs'')
inductive EqvL : List J → List J → Prop
  | nil : EqvL [] []
  | cons {x y : J} {xs ys : List J} : Eqv x y → EqvL xs ys → EqvL (x :: xs) (y :: ys)
inductive EqvD : List (Key × J) → List (Key × J) → Prop
  | nil : EqvD [] []
  | cons {k : Key} {v w : J} {r s : List (Key × J)} :
      Eqv v w → EqvD r s → EqvD ((k, v) :: r) ((k, w) :: s)
end

mutual
/-- every dict inside the value has pairwise distinct keys (true of any Python dict) -/
def DistinctKeys : J → Prop
  | .str _ => True
  | .int _ => True
  | .num _ => True
  | .kw _ => True
  | .list xs => DistinctKeysL xs
  | .dict kvs => (kvs.map (·.1)).Nodup ∧ DistinctKeysD kvs
def DistinctKeysL : List J → Prop
  | [] => True
  | x :: xs => DistinctKeys x ∧ DistinctKeysL xs
def DistinctKeysD : List (Key × J) → Prop
  | [] => True
  | (_, v) :: r => DistinctKeys v ∧ DistinctKeysD r
end

mutual
/-- `DistinctKeys` as a test: the driver refuses a request whose value has a repeated key
(`C11.distinct_checked`) -/
def distinctB : J → Bool
  | .str _ => true
  | .int _ => true
  | .num _ => true
  | .kw _ => true
  | .list xs => distinctBL xs
  | .dict kvs => decide ((kvs.map (·.1)).Nodup) && distinctBD kvs
def distinctBL : List J → Bool
  | [] => true
  | x :: xs => distinctB x && distinctBL xs
def distinctBD : List (Key × J) → Bool
  | [] => true
  | (_, v) :: r => distinctB v && distinctBD r
end

/-- CPython's `str(int)` refuses an int of more than `sys.get_int_max_str_digits()` decimal digits
(default 4300) with `ValueError`; `showInt` has no such limit. -/
def maxStrDigits : Nat := 4300

/-- at most `maxStrDigits` decimal digits -/
def intPrintable (n : Int) : Bool := decide (n.natAbs < 10 ^ maxStrDigits)

def keyPrintable : Key → Bool
  | .int n => intPrintable n
  | _ => true

mutual
/-- every int of the value (values and keys) is one that CPython's `str()` prints: the driver
answers `err ValueError` otherwise, as the real printer does (outside the domain of C11) -/
def intsPrintable : J → Bool
  | .str _ => true
  | .int n => intPrintable n
  | .num _ => true
  | .kw _ => true
  | .list xs => intsPrintableL xs
  | .dict kvs => intsPrintableD kvs
def intsPrintableL : List J → Bool
  | [] => true
  | x :: xs => intsPrintable x && intsPrintableL xs
def intsPrintableD : List (Key × J) → Bool
  | [] => true
  | (k, v) :: r => keyPrintable k && intsPrintable v && intsPrintableD r
end

mutual
/-- every dict inside the value lists its entries in strictly increasing key order -/
def KeysSorted : J → Prop
  | .str _ => True
  | .int _ => True
  | .num _ => True
  | .kw _ => True
  | .list xs => KeysSortedL xs
  | .dict kvs => kvs.Pairwise (fun a b => kLt a.1 b.1 = true) ∧ KeysSortedD kvs
def KeysSortedL : List J → Prop
  | [] => True
  | x :: xs => KeysSorted x ∧ KeysSortedL xs
def KeysSortedD : List (Key × J) → Prop
  | [] => True
  | (_, v) :: r => KeysSorted v ∧ KeysSortedD r
end

/-- keyword literals are distinct non-empty words -/
def Consts.ok (c : Consts) : Bool :=
  c.tt.all isLetter && c.ff.all isLetter && c.nul.all isLetter &&
  !c.tt.isEmpty && !c.ff.isEmpty && !c.nul.isEmpty &&
  decide (c.tt ≠ c.ff) && decide (c.tt ≠ c.nul) && decide (c.ff ≠ c.nul) &&
  -- a mode with keyword keys prints them by `str()`: its literals must be Python's names
  (c.strKeys || (decide (c.tt = kwStr .tt) && decide (c.ff = kwStr .ff) && decide (c.nul = kwStr .nul)))

/-! ## the tables and numbers of the source (`Gen.C11`, regenerated on every run) -/

def pyConsts : Consts := ⟨Gen.C11.pyTrue, Gen.C11.pyFalse, Gen.C11.pyNone, false⟩
def jsonConsts : Consts := ⟨Gen.C11.jsonTrue, Gen.C11.jsonFalse, Gen.C11.jsonNull, true⟩
def limits : Limits := ⟨Gen.C11.oneLineDict, Gen.C11.oneLineList, Gen.C11.wrapLimit, Gen.C11.indent⟩

end PPrint
