/-!
Shared conventions of all models (DESIGN.md §4).

Python exceptions are modelled by `Except Err α`; the model rejects what the code rejects.
-/
namespace Ak

inductive Err where
  | valueError | keyError | indexError | assertion | typeError | attributeError
  | grammarError | grammarIsRecursive | parsingError | lexicalError | systemExit
  | outOfFuel
  deriving Repr, DecidableEq, Inhabited

def Err.name : Err → String
  | .valueError => "ValueError" | .keyError => "KeyError" | .indexError => "IndexError"
  | .assertion => "AssertionError" | .typeError => "TypeError"
  | .attributeError => "AttributeError"
  | .grammarError => "GrammarError" | .grammarIsRecursive => "GrammarIsRecursive"
  | .parsingError => "ParsingError" | .lexicalError => "LexicalError"
  | .systemExit => "SystemExit" | .outOfFuel => "OUT-OF-FUEL"

instance instDecEqExcept {ε α : Type} [DecidableEq ε] [DecidableEq α] : DecidableEq (Except ε α)
  | .ok a, .ok b => if h : a = b then isTrue (by rw [h]) else isFalse (by intro h'; cases h'; exact h rfl)
  | .error a, .error b => if h : a = b then isTrue (by rw [h]) else isFalse (by intro h'; cases h'; exact h rfl)
  | .ok _, .error _ => isFalse (by intro h; cases h)
  | .error _, .ok _ => isFalse (by intro h; cases h)

end Ak
