import AkVerif.Model.Common
import AkVerif.Model.LLParse
/-!
Model of `LLParser.__init__` (`/repo/ak/llparser.py`): everything between the user's productions
and the parse table.  Used by C01, C02, C03.

Generic part (any symbol type `σ` with decidable equality):
* `Rule`, `Prods`        — `ProdRule` (right-hand side + `sort_n`; the left-hand side is the dict key),
                           `prods_map` as an insertion-ordered association list.
* `dget`/`dset`/`dappend`— Python `dict` reads (`none` = `KeyError`), in-place writes, `defaultdict(list)` appends.
* `sadd`/`sunion`        — `set.add` / `set.update` on duplicate-free lists (sorted only at the protocol boundary).
* `nullables`            — `_get_nullables`: Jacobi passes until the size stops changing.
* `firstSets`            — `_calc_first_sets`: in-place passes until a pass changes nothing.
* `followSets`           — `_calc_follow_sets`: immediate follows + dependency sets, then the closure loop.
* `mkTable`              — `_make_llone_table`: start symbols per rule, append per `(X, t)`, stable sort by `sort_n`.
* `isAmbiguous`          — some table entry has `≠ 1` alternatives.
* `recCheck`             — `_verify_grammar_structure_part2` (with the repaired line 1936-1940),
                           the symbols to start from are given in the order `sorted(prods_map.items())`.
All loops run on fuel with an explicit `outOfFuel`.

Concrete part (`Sym` = user name | suffix symbol `parent__Snn…`, structurally fresh):
* `splitChunks`, `factorizeList` — `_split_prods_rules`, `_factorize_prods_list` + `_factorize_common_prefix_prods`.
* `smartUndo`            — the `if smart_factorization:` block of `_factorize_productions`.
* `construct`            — the constructor: terminals, skip tokens, factorisation, `_verify_grammar_structure_part1`,
                           nullables, table, recursion check; errors in the order the code raises them.

Iteration orders that depend on Python's `set` hashing (`fsets`, `for dep in depends`, `start_symbols`)
or on `sorted(...)` in `_calc_follow_sets` do not influence the resulting *sets* / table lists; the model
iterates in `prods_map` order there.
-/
namespace LL
open Ak

/-! ### dictionaries and sets -/
section Dict
variable {κ β : Type} [DecidableEq κ]

def dget (k : κ) : List (κ × β) → Option β
  | [] => none
  | (k', v) :: rest => if k' = k then some v else dget k rest

/-- `d[k] = v`: replaces in place, a new key goes last -/
def dset (k : κ) (v : β) : List (κ × β) → List (κ × β)
  | [] => [(k, v)]
  | (k', v') :: rest => if k' = k then (k, v) :: rest else (k', v') :: dset k v rest

/-- `defaultdict(list)`: `d[k].append(x)` -/
def dappend {γ : Type} (k : κ) (x : γ) : List (κ × List γ) → List (κ × List γ)
  | [] => [(k, [x])]
  | (k', l) :: rest => if k' = k then (k, l ++ [x]) :: rest else (k', l) :: dappend k x rest

def ddel (k : κ) : List (κ × β) → List (κ × β)
  | [] => []
  | (k', v) :: rest => if k' = k then rest else (k', v) :: ddel k rest

def sadd (s : List κ) (x : κ) : List κ := if x ∈ s then s else s ++ [x]

def sunion (a b : List κ) : List κ := b.foldl sadd a

/-- `d[k]` in a place where a missing key is Python's `KeyError` -/
def dgetE (k : κ) (d : List (κ × β)) : Except Err β :=
  match dget k d with
  | some v => .ok v
  | none => .error .keyError
end Dict

structure Rule (σ : Type) where
  rhs : List σ
  sortN : Nat
  deriving DecidableEq, Repr

abbrev Prods (σ : Type) := List (σ × List (Rule σ))
abbrev SetMap (σ : Type) := List (σ × List σ)

section Generic
variable {σ : Type} [DecidableEq σ]

/-! ### `_get_nullables` -/

/-- the `for non_term, prod_rs in prods_map.items()` loop of one pass: membership is tested in
`cur`, new symbols are added to `next` (which starts as a copy of `cur`) -/
def nullPass (cur : List σ) : Prods σ → List σ → List σ
  | [], next => next
  | (nt, rules) :: rest, next =>
    if nt ∈ next then nullPass cur rest next
    else if rules.any (fun r => r.rhs.all (fun s => decide (s ∈ cur))) then nullPass cur rest (next ++ [nt])
    else nullPass cur rest next

/-- `while len(cur_set) != len(next_set)` -/
def nullLoop (G : Prods σ) : Nat → List σ → Except Err (List σ)
  | 0, _ => .error .outOfFuel
  | fuel + 1, cur =>
    let next := nullPass cur G cur
    if next.length = cur.length then .ok next else nullLoop G fuel next

def nullables (G : Prods σ) : Except Err (List σ) := nullLoop G (G.length + 2) []

/-! ### `_calc_first_sets` -/

/-- the `for symbol in prod_r.production` loop for one rule of `nt`; `fs[nt]` is updated in place -/
def firstSyms (terms nulls : List σ) (nt : σ) : List σ → SetMap σ → Bool → Except Err (SetMap σ × Bool)
  | [], fs, upd => .ok (fs, upd)
  | s :: rest, fs, upd => do
    let cur ← dgetE nt fs
    let (fs', upd') ←
      if s ∈ terms then
        (if s ∈ cur then pure (fs, upd) else pure (dset nt (cur ++ [s]) fs, true) : Except Err _)
      else do
        let other ← dgetE s fs
        let new := sunion cur other
        pure (dset nt new fs, upd || decide (new.length ≠ cur.length))
    if s ∈ nulls then firstSyms terms nulls nt rest fs' upd' else .ok (fs', upd')

def firstRules (terms nulls : List σ) (nt : σ) : List (Rule σ) → SetMap σ → Bool → Except Err (SetMap σ × Bool)
  | [], fs, upd => .ok (fs, upd)
  | r :: rest, fs, upd => do
    let (fs', upd') ← firstSyms terms nulls nt r.rhs fs upd
    firstRules terms nulls nt rest fs' upd'

def firstPass (terms nulls : List σ) : Prods σ → SetMap σ → Bool → Except Err (SetMap σ × Bool)
  | [], fs, upd => .ok (fs, upd)
  | (nt, rules) :: rest, fs, upd => do
    let (fs', upd') ← firstRules terms nulls nt rules fs upd
    firstPass terms nulls rest fs' upd'

def firstLoop (terms nulls : List σ) (G : Prods σ) : Nat → SetMap σ → Except Err (SetMap σ)
  | 0, _ => .error .outOfFuel
  | fuel + 1, fs => do
    let (fs', upd) ← firstPass terms nulls G fs false
    if upd then firstLoop terms nulls G fuel fs' else .ok fs'

def emptySets (G : Prods σ) : SetMap σ := G.map fun (nt, _) => (nt, [])

def firstSets (terms nulls : List σ) (G : Prods σ) : Except Err (SetMap σ) :=
  firstLoop terms nulls G (G.length * (terms.length + 1) + 2) (emptySets G)

/-! ### `_calc_follow_sets` -/

/-- `for next_symbol in prod_r.production[i+1:]` … `else: follows_deps[cur_symbol].add(non_term)` -/
def followTail (terms nulls : List σ) (first : SetMap σ) (A X : σ) :
    List σ → SetMap σ × SetMap σ → Except Err (SetMap σ × SetMap σ)
  | [], (W, D) => do
    let d ← dgetE X D
    .ok (W, dset X (sadd d A) D)
  | n :: rest, (W, D) => do
    let w ← dgetE X W
    let (W', D') ←
      if n ∈ terms then (pure (dset X (sadd w n) W, D) : Except Err _)
      else do
        let f ← dgetE n first
        pure (dset X (sunion w f) W, D)
    if n ∈ nulls then followTail terms nulls first A X rest (W', D') else .ok (W', D')

/-- `for i, cur_symbol in enumerate(prod_r.production)` -/
def followRule (terms nulls : List σ) (first : SetMap σ) (A : σ) :
    List σ → SetMap σ × SetMap σ → Except Err (SetMap σ × SetMap σ)
  | [], st => .ok st
  | X :: rest, st =>
    if X ∈ terms then followRule terms nulls first A rest st
    else do
      let st' ← followTail terms nulls first A X rest st
      followRule terms nulls first A rest st'

def followRules (terms nulls : List σ) (first : SetMap σ) (A : σ) :
    List (Rule σ) → SetMap σ × SetMap σ → Except Err (SetMap σ × SetMap σ)
  | [], st => .ok st
  | r :: rest, st => do
    let st' ← followRule terms nulls first A r.rhs st
    followRules terms nulls first A rest st'

def followImm (terms nulls : List σ) (first : SetMap σ) :
    Prods σ → SetMap σ × SetMap σ → Except Err (SetMap σ × SetMap σ)
  | [], st => .ok st
  | (A, rules) :: rest, st => do
    let st' ← followRules terms nulls first A rules st
    followImm terms nulls first rest st'

/-- `for dep in depends: follow_set.update(follow_sets[dep])` -/
def depsOne (X : σ) : List σ → SetMap σ → Except Err (SetMap σ)
  | [], W => .ok W
  | dep :: rest, W => do
    let w ← dgetE X W
    let wd ← dgetE dep W
    depsOne X rest (dset X (sunion w wd) W)

def depsPass : SetMap σ → SetMap σ → Bool → Except Err (SetMap σ × Bool)
  | [], W, upd => .ok (W, upd)
  | (X, depends) :: rest, W, upd => do
    let w0 ← dgetE X W
    let W' ← depsOne X depends W
    let w1 ← dgetE X W'
    depsPass rest W' (upd || decide (w1.length ≠ w0.length))

def depsLoop (D : SetMap σ) : Nat → SetMap σ → Except Err (SetMap σ)
  | 0, _ => .error .outOfFuel
  | fuel + 1, W => do
    let (W', upd) ← depsPass D W false
    if upd then depsLoop D fuel W' else .ok W'

def followSets (terms nulls : List σ) (first : SetMap σ) (G : Prods σ) (start endS : σ) :
    Except Err (SetMap σ) := do
  let W0 := emptySets G
  -- `assert start_symbol_name in prods_map` / `follow_sets[start].add($END$)`
  let ws ← match dget start W0 with
    | some w => (pure w : Except Err _)
    | none => .error .assertion
  let W1 := dset start (sadd ws endS) W0
  let (W2, D) ← followImm terms nulls first G (W1, emptySets G)
  depsLoop D (G.length * (terms.length + 1) + 2) W2

/-! ### `_make_llone_table` -/

/-- `start_symbols` of one rule of `A` -/
def startSyms (terms nulls : List σ) (first follow : SetMap σ) (A : σ) :
    List σ → List σ → Except Err (List σ)
  | [], acc =>
    -- `for … else:` all symbols nullable: `assert non_term in nullables`
    if A ∈ nulls then do
      let w ← dgetE A follow
      .ok (sunion acc w)
    else .error .assertion
  | s :: rest, acc =>
    if s ∈ terms then .ok (sadd acc s)
    else do
      let f ← dgetE s first
      if s ∈ nulls then startSyms terms nulls first follow A rest (sunion acc f)
      else .ok (sunion acc f)

abbrev Table (σ : Type) := List ((σ × σ) × List (Rule σ))

def tableRules (terms nulls : List σ) (first follow : SetMap σ) (A : σ) :
    List (Rule σ) → Table σ → Except Err (Table σ)
  | [], T => .ok T
  | r :: rest, T => do
    let ss ← startSyms terms nulls first follow A r.rhs []
    tableRules terms nulls first follow A rest (ss.foldl (fun T t => dappend (A, t) r T) T)

def tableFill (terms nulls : List σ) (first follow : SetMap σ) : Prods σ → Table σ → Except Err (Table σ)
  | [], T => .ok T
  | (A, rules) :: rest, T => do
    let T' ← tableRules terms nulls first follow A rules T
    tableFill terms nulls first follow rest T'

/-- stable insertion by `sort_n` (`list.sort(key=lambda r: r.sort_n)`) -/
def insertRule (r : Rule σ) : List (Rule σ) → List (Rule σ)
  | [] => [r]
  | x :: xs => if r.sortN ≤ x.sortN then r :: x :: xs else x :: insertRule r xs

def sortRules : List (Rule σ) → List (Rule σ)
  | [] => []
  | r :: rs => insertRule r (sortRules rs)

def mkTable (terms nulls : List σ) (first follow : SetMap σ) (G : Prods σ) : Except Err (Table σ) := do
  let T ← tableFill terms nulls first follow G []
  .ok (T.map fun (k, l) => (k, sortRules l))

def isAmbiguous (T : Table σ) : Bool := T.any fun (_, l) => decide (l.length ≠ 1)

/-! ### `_verify_grammar_structure_part2` -/

structure RFrame (σ : Type) where
  sym : σ
  rules : List (Rule σ)
  pid : Nat
  sid : Nat

def RFrame.nextProd (f : RFrame σ) : RFrame σ := { f with pid := f.pid + 1, sid := 0 }
def RFrame.nextSym (f : RFrame σ) : RFrame σ := { f with sid := f.sid + 1 }

inductive RRes (σ : Type) where
  | cont (processed : List σ) (stack : List (RFrame σ))
  | cycle
  | stuck (e : Err)

/-- one iteration of `while stack:` (top of the stack first) -/
def recStep (G : Prods σ) (nulls : List σ) (processed : List σ) : List (RFrame σ) → RRes σ
  | [] => .cont processed []
  | top :: rest =>
    if top.rules.length ≤ top.pid then
      let processed' := sadd processed top.sym
      match rest with
      | [] => .cont processed' []
      | p :: rest' =>
        match p.rules[p.pid]? with
        | none => .stuck .indexError
        | some prod =>
          match prod.rhs[p.sid]? with
          | none => .stuck .indexError
          | some cps =>
            if cps ∈ nulls then .cont processed' (p.nextSym :: rest')
            else .cont processed' (p.nextProd :: rest')
    else
      match top.rules[top.pid]? with
      | none => .stuck .indexError
      | some prod =>
        if prod.rhs.length ≤ top.sid then .cont processed (top.nextProd :: rest)
        else
          match prod.rhs[top.sid]? with
          | none => .stuck .indexError
          | some c =>
            if (top :: rest).any (fun f => decide (f.sym = c)) then .cycle
            else if c ∈ processed then
              (if c ∈ nulls then .cont processed (top.nextSym :: rest)
               else .cont processed (top.nextProd :: rest))
            else
              let prevNullable : Option Bool :=
                if 0 < top.sid then (prod.rhs[top.sid - 1]?).map (fun s => decide (s ∈ nulls)) else some true
              match prevNullable with
              | none => .stuck .indexError
              | some false => .cont processed (top.nextProd :: rest)
              | some true =>
                match dget c G with
                | none => .stuck .keyError
                | some rules => .cont processed ({ sym := c, rules := rules, pid := 0, sid := 0 } :: top :: rest)

def recInner (G : Prods σ) (nulls : List σ) : Nat → List σ → List (RFrame σ) → Except Err (List σ)
  | 0, _, _ => .error .outOfFuel
  | fuel + 1, processed, stack =>
    match stack with
    | [] => .ok processed
    | _ :: _ =>
      match recStep G nulls processed stack with
      | .cont p' st' => recInner G nulls fuel p' st'
      | .cycle => .error .grammarIsRecursive
      | .stuck e => .error e

/-- the `for symbol, prod_rules in sorted(prods_map.items())` loop; `order` = the sorted keys -/
def recOuter (G : Prods σ) (nulls : List σ) (fuel : Nat) : List σ → List σ → Except Err Unit
  | [], _ => .ok ()
  | s :: rest, processed =>
    if s ∈ processed then recOuter G nulls fuel rest processed
    else do
      let rules ← dgetE s G
      let processed' ← recInner G nulls fuel processed [{ sym := s, rules := rules, pid := 0, sid := 0 }]
      recOuter G nulls fuel rest processed'

def gsize (G : Prods σ) : Nat :=
  (G.map fun (_, rules) => (rules.map fun r => r.rhs.length + 2).sum + 3).sum

def recCheck (G : Prods σ) (terms nulls order : List σ) : Except Err Unit :=
  recOuter G nulls (2 * gsize G + 4) order terms

end Generic

/-! ### concrete symbols -/

/-- a user symbol (`path = []`) or the suffix symbol `base__Sg₁__Sg₂…` -/
structure Sym where
  base : List Char
  path : List Nat
  deriving DecidableEq, Repr

def Sym.user (s : String) : Sym := ⟨s.toList, []⟩
def Sym.suf (s : Sym) (g : Nat) : Sym := ⟨s.base, s.path ++ [g]⟩
def Sym.isSuf (s : Sym) : Bool := !s.path.isEmpty

/-- `f"{group_id:02}"` -/
def pad2 (g : Nat) : List Char :=
  let ds := (Nat.toDigits 10 g)
  if ds.length < 2 then '0' :: ds else ds

/-- the Python name of the symbol -/
def Sym.name (s : Sym) : List Char :=
  s.base ++ (s.path.map fun g => "__S".toList ++ pad2 g).flatten

def Sym.nameLen (s : Sym) : Nat := s.name.length

/-- Python `str.__lt__`: lexicographic by code point -/
def strLt : List Char → List Char → Bool
  | [], [] => false
  | [], _ :: _ => true
  | _ :: _, [] => false
  | a :: as, b :: bs => if a.toNat < b.toNat then true else if b.toNat < a.toNat then false else strLt as bs

/-- stable insertion sort with `le x y` = "x may stay before y" -/
def insertBy {α : Type} (le : α → α → Bool) (x : α) : List α → List α
  | [] => [x]
  | y :: ys => if le x y then x :: y :: ys else y :: insertBy le x ys

def sortBy {α : Type} (le : α → α → Bool) : List α → List α
  | [] => []
  | x :: xs => insertBy le x (sortBy le xs)

/-- `sorted(prods_map.items())`: keys in name order -/
def sortedKeys (G : Prods Sym) : List Sym :=
  sortBy (fun a b => !strLt b.name a.name) (G.map (·.1))

def startSym : Sym := Sym.user "$START$"
def endSym : Sym := Sym.user "$END$"

/-! ### factorisation -/

/-- `_split_prods_rules`: consecutive rules with the same first symbol (`None` for `()`) -/
def splitChunks {σ : Type} [DecidableEq σ] : List (Rule σ) → List (List (Rule σ))
  | [] => []
  | r :: rs =>
    match splitChunks rs with
    | [] => [[r]]
    | [] :: cs => [r] :: cs
    | (r' :: c) :: cs =>
      if r.rhs.head? = r'.rhs.head? then (r :: r' :: c) :: cs else [r] :: (r' :: c) :: cs

def lcp {σ : Type} [DecidableEq σ] : List σ → List σ → List σ
  | a :: as, b :: bs => if a = b then a :: lcp as bs else []
  | _, _ => []

def numberFrom {α : Type} : Nat → List α → List (Nat × α)
  | _, [] => []
  | n, x :: xs => (n, x) :: numberFrom (n + 1) xs

/-- the chunks of one `_factorize_prods_list` call; `gid` is `_grp_id_gen`; `recur` factorises the
rules of a new suffix symbol (`_factorize_common_prefix_prods` calls `_factorize_prods_list`) -/
def factorizeChunks (recur : Sym → List (Rule Sym) → Except Err (Prods Sym)) (sym : Sym) :
    List (List (Rule Sym)) → Nat → Except Err (List (Rule Sym) × Prods Sym)
  | [], _ => .ok ([], [])
  | [] :: _, _ => .error .assertion
  | [r] :: rest, gid => do
    let (rs, sp) ← factorizeChunks recur sym rest gid
    .ok (r :: rs, sp)
  | (r0 :: r1 :: more) :: rest, gid =>
    let pre := (r1 :: more).foldl (fun acc r => lcp acc r.rhs) r0.rhs
    if pre = [] then .error .assertion
    else do
      let suf := sym.suf gid
      let grp : Rule Sym := ⟨pre ++ [suf], r0.sortN⟩
      let sufRules := (numberFrom 0 (r0 :: r1 :: more)).map fun (i, r) => (⟨r.rhs.drop pre.length, i⟩ : Rule Sym)
      let extra ← recur suf sufRules
      let (rs, sp) ← factorizeChunks recur sym rest (gid + 1)
      .ok (grp :: rs, extra ++ sp)

/-- `_factorize_prods_list`: `(symbol, rules)` first, then the suffix symbols it created -/
def factorizeList : Nat → Sym → List (Rule Sym) → Except Err (Prods Sym)
  | 0, _, _ => .error .outOfFuel
  | fuel + 1, sym, rules => do
    let (rs, sp) ← factorizeChunks (factorizeList fuel) sym (splitChunks rules) 0
    .ok ((sym, rs) :: sp)

def maxRhs (G : Prods Sym) : Nat :=
  G.foldl (fun m (_, rules) => rules.foldl (fun m r => max m r.rhs.length) m) 0

def factorizeAll (fuel : Nat) : Prods Sym → Except Err (Prods Sym)
  | [] => .ok []
  | (s, rules) :: rest => do
    let a ← factorizeList fuel s rules
    let b ← factorizeAll fuel rest
    .ok (a ++ b)

/-- one rule in the smart-undo loop: the rules that replace it and the suffix it inlined -/
def undoRule (terms suffix : List Sym) (d : Prods Sym) (r : Rule Sym) :
    Except Err (List (Rule Sym) × Option Sym) :=
  match r.rhs with
  | [a, b] =>
    if a ∈ terms ∧ b ∈ suffix then do
      let sp ← dgetE b d
      if 5 < sp.length then .ok ([r], none)
      else .ok (sp.map (fun sr => (⟨a :: sr.rhs, 0⟩ : Rule Sym)), some b)
    else .ok ([r], none)
  | _ => .ok ([r], none)

def undoRules (terms suffix : List Sym) (d : Prods Sym) :
    List (Rule Sym) → Except Err (List (Rule Sym) × List Sym)
  | [] => .ok ([], [])
  | r :: rest => do
    let (rs, rm) ← undoRule terms suffix d r
    let (rs', rm') ← undoRules terms suffix d rest
    .ok (rs ++ rs', (match rm with | some b => [b] | none => []) ++ rm')

/-- the body of `for symbol, rr in sorted(result_rules.items(), key=lambda kv: -len(kv[0]))` -/
def undoLoop (terms suffix : List Sym) : List Sym → Prods Sym → List Sym → Except Err (Prods Sym × List Sym)
  | [], d, rm => .ok (d, rm)
  | s :: rest, d, rm => do
    let rr ← dgetE s d
    let (new, rm') ← undoRules terms suffix d rr
    let d' := if new.length ≠ rr.length
      then dset s ((numberFrom 0 new).map fun (i, r) => (⟨r.rhs, i⟩ : Rule Sym)) d else d
    undoLoop terms suffix rest d' (rm'.foldl sadd rm)

def smartUndo (terms : List Sym) (d : Prods Sym) (suffix : List Sym) : Except Err (Prods Sym × List Sym) := do
  let order := sortBy (fun (a b : Sym) => decide (b.nameLen ≤ a.nameLen)) (d.map (·.1))
  let (d', rm) ← undoLoop terms suffix order d []
  .ok (rm.foldl (fun d s => ddel s d) d', suffix.filter (fun s => decide (s ∉ rm)))

/-- `_factorize_productions` -/
def factorize (terms : List Sym) (U : Prods Sym) (smart : Bool) : Except Err (Prods Sym × List Sym) := do
  let d ← factorizeAll (maxRhs U + 2) U
  -- `assert s not in result_rules`, `assert grp_symbol_suffix not in suffix_symbols`
  if ¬ (d.map (·.1)).Nodup then .error .assertion
  else
    let suffix := (d.map (·.1)).filter Sym.isSuf
    if smart then smartUndo terms d suffix else .ok (d, suffix)

/-! ### the constructor -/

def hasDunder : List Char → Bool
  | '_' :: '_' :: _ => true
  | _ :: rest => hasDunder rest
  | [] => false

/-- arguments of `LLParser(...)` as far as C01–C03 use them -/
structure CtorIn where
  groups : List (List Char)                              -- `matcher.groupindex.keys()`
  syn : List (List Char × List Char)                     -- synonyms
  kw : List ((List Char × List Char) × List Char)        -- keywords {(token, value): token}
  skip : Option (List (List Char))                       -- skip_tokens (None = default)
  start : List Char
  prods : List (List Char × List (List (List Char)))     -- productions, `None` already `()`
  smart : Bool

structure Parser where
  terminals : List Sym
  skip : List Sym
  start : Sym
  syn : List (List Char × List Char)
  kw : List ((List Char × List Char) × List Char)
  userProds : Prods Sym
  prods : Prods Sym
  suffix : List Sym
  nullables : List Sym
  first : SetMap Sym
  follow : SetMap Sym
  table : Table Sym

def usym (n : List Char) : Sym := ⟨n, []⟩

/-- `n = rest ++ "__S" ++ digits` where `digits` is what `f"{g:02}"` prints for some `g` -/
def splitSuffix (n : List Char) : Option (List Char × Nat) :=
  let r := n.reverse
  match r.dropWhile Char.isDigit with
  | 'S' :: '_' :: '_' :: base =>
    let ds := (r.takeWhile Char.isDigit).reverse
    let g := ds.foldl (fun acc c => acc * 10 + (c.toNat - 48)) 0
    if pad2 g = ds then some (base.reverse, g) else none
  | _ => none

def parseSymAux : Nat → List Char → Sym
  | 0, n => ⟨n, []⟩
  | fuel + 1, n =>
    match splitSuffix n with
    | some (rest, g) => (parseSymAux fuel rest).suf g
    | none => ⟨n, []⟩

/-- the symbol a Python name denotes: a name of the shape `X__Snn` *is* the helper symbol the
factorisation would create for `X`.  The constructor asserts that keys, right-hand side symbols and
terminals contain no `__`; `start_symbol_name` is not checked and may name a helper symbol. -/
def parseSym (n : List Char) : Sym := parseSymAux n.length n

/-- `_Tokenizer.get_all_token_names` -/
def tokenNames (inp : CtorIn) : List Sym :=
  let t0 := inp.groups.foldl (fun acc g => sadd acc (parseSym g)) []
  let t1 := t0.filter fun t => (dget t.name inp.syn).isNone
  let t2 := inp.syn.foldl (fun acc kv => sadd acc (parseSym kv.2)) t1
  inp.kw.foldl (fun acc kv => sadd acc (parseSym kv.2)) t2

/-- `_create_productions`: one counter for `sort_n` over all productions -/
def createProds : Nat → List (List Char × List (List (List Char))) → Prods Sym → Except Err (Prods Sym)
  | _, [], acc => .ok acc
  | n, (s, alts) :: rest, acc =>
    if hasDunder s then .error .assertion
    -- `assert '__' not in prod_symbol` for every symbol of every production of `s`
    else if alts.any (fun p => p.any hasDunder) then .error .assertion
    else if (dget (parseSym s) acc).isSome then .error .assertion
    else
      let rules := (numberFrom n alts).map fun (i, p) => (⟨p.map parseSym, i⟩ : Rule Sym)
      createProds (n + alts.length) rest (acc ++ [(parseSym s, rules)])

/-- bookkeeping of `_create_productions` for production templates (`ProdSequence`, `ListProds`, `MapProds`):
the productions a template generates enter the model as data (their derivation is C05's subject);
`tmpl` = the keys of `productions` that were given as a template (the key is a user name and is checked
for `__`, its generated right-hand sides are not), `gen` = the additional symbols the templates created
(`S__ELEMENT`, `L__TAIL`, … — never checked) -/
structure Tmpl where
  tmpl : List (List Char)
  gen : List (List Char)

def Tmpl.none : Tmpl := ⟨[], []⟩

/-- `_create_productions` for a dictionary that may contain templates (expanded in place) -/
def createProdsT (T : Tmpl) : Nat → List (List Char × List (List (List Char))) → Prods Sym → Except Err (Prods Sym)
  | _, [], acc => .ok acc
  | n, (s, alts) :: rest, acc =>
    if s ∉ T.gen ∧ hasDunder s then .error .assertion
    else if s ∉ T.gen ∧ s ∉ T.tmpl ∧ alts.any (fun p => p.any hasDunder) then .error .assertion
    else if (dget (parseSym s) acc).isSome then .error .assertion
    else
      let rules := (numberFrom n alts).map fun (i, p) => (⟨p.map parseSym, i⟩ : Rule Sym)
      createProdsT T (n + alts.length) rest (acc ++ [(parseSym s, rules)])

/-- `_verify_grammar_structure_part1` -/
def verifyPart1 (terms : List Sym) (start : Sym) (G : Prods Sym) : Except Err Unit :=
  let keys := G.map (·.1)
  let syms := (G.map fun (_, rules) => (rules.map (·.rhs)).flatten).flatten
  if start ∉ keys then .error .grammarError
  else if endSym ∈ keys then .error .grammarError
  else if startSym ∈ keys then .error .grammarError
  else if keys.any (fun k => decide (k ∈ terms)) then .error .grammarError
  else if syms.any (fun s => decide (s ∉ terms ∧ s ∉ keys)) then .error .grammarError
  else if endSym ∈ syms then .error .grammarError
  else if startSym ∈ syms then .error .grammarError
  else .ok ()

/-- `self.skip_tokens` -/
def skipSet (inp : CtorIn) (terms0 : List Sym) : Except Err (List Sym) :=
  match inp.skip with
  | none => .ok ([usym "SPACE".toList, usym "COMMENT".toList].filter (fun t => decide (t ∈ terms0)))
  | some l =>
    let sk := l.foldl (fun acc t => sadd acc (parseSym t)) []
    if sk.any (fun t => decide (t ∉ terms0)) then .error .grammarError else .ok sk

def construct (inp : CtorIn) : Except Err Parser := do
  let terms0 := tokenNames inp
  if terms0.any (fun t => hasDunder t.name) then .error .assertion else
  let skip ← skipSet inp terms0
  let U ← createProds 0 inp.prods []
  let (G, suffix) ← factorize terms0 U inp.smart
  let terms := sadd terms0 endSym
  let start := parseSym inp.start
  verifyPart1 terms start G
  let nulls ← nullables G
  let first ← firstSets terms nulls G
  let follow ← followSets terms nulls first G start endSym
  let table ← mkTable terms nulls first follow G
  recCheck G terms nulls (sortedKeys G)
  .ok { terminals := terms, skip := skip, start := start, syn := inp.syn, kw := inp.kw,
        userProds := U, prods := G, suffix := suffix, nullables := nulls, first := first,
        follow := follow, table := table }

/-- the constructor for a dictionary with templates: `construct` with `_create_productions` generalised -/
def constructG (T : Tmpl) (inp : CtorIn) : Except Err Parser := do
  let terms0 := tokenNames inp
  if terms0.any (fun t => hasDunder t.name) then .error .assertion else
  let skip ← skipSet inp terms0
  let U ← createProdsT T 0 inp.prods []
  let (G, suffix) ← factorize terms0 U inp.smart
  let terms := sadd terms0 endSym
  let start := parseSym inp.start
  verifyPart1 terms start G
  let nulls ← nullables G
  let first ← firstSets terms nulls G
  let follow ← followSets terms nulls first G start endSym
  let table ← mkTable terms nulls first follow G
  recCheck G terms nulls (sortedKeys G)
  .ok { terminals := terms, skip := skip, start := start, syn := inp.syn, kw := inp.kw,
        userProds := U, prods := G, suffix := suffix, nullables := nulls, first := first,
        follow := follow, table := table }

/-! ### `parse` on top of the constructed parser -/

/-- what `parse` consults: `self.terminals`, `self.parse_table.get((X, t))`, `self._suffix_symbols` -/
def cfgOf {σ : Type} [DecidableEq σ] (terms : List σ) (T : Table σ) (suffix : List σ) : Cfg σ :=
  { isTerm := fun s => decide (s ∈ terms),
    table := fun X t => (dget (X, t) T).map (fun l => l.map Rule.rhs),
    isSuffix := fun s => decide (s ∈ suffix) }

def Parser.cfg (P : Parser) : Cfg Sym := cfgOf P.terminals P.table P.suffix

/-- `_Tokenizer.tokenize` naming: `synonyms.get(name, name)`, then `keywords.get((name, value))` -/
def Parser.rename (P : Parser) (raw : List Char × List Char) : Tok Sym :=
  let n1 := match dget raw.1 P.syn with
    | some n => n
    | none => raw.1
  let n2 := match dget (n1, raw.2) P.kw with
    | some n => n
    | none => n1
  ⟨parseSym n2, raw.2⟩

/-- the token list of `parse`: renamed lexemes without the skipped ones, then `$END$` -/
def Parser.tokens (P : Parser) (raw : List (List Char × List Char)) : List (Tok Sym) :=
  ((raw.map P.rename).filter fun t => decide (t.name ∉ P.skip)) ++ [⟨endSym, []⟩]

def Parser.parse (P : Parser) (raw : List (List Char × List Char)) (fuel : Nat) : Except Err (Tree Sym) :=
  run P.cfg (P.tokens raw) fuel (initStack startSym P.start endSym)

/-- `parse(text, start_symbol_name=s)`: `assert start_symbol_name in self.prods_map`, then the same
loop from `$START$ -> (s, $END$)`; nothing of the parser object changes -/
def Parser.parseFrom (P : Parser) (s : List Char) (raw : List (List Char × List Char)) (fuel : Nat) :
    Except Err (Tree Sym) :=
  if parseSym s ∈ P.prods.map (·.1) then
    run P.cfg (P.tokens raw) fuel (initStack startSym (parseSym s) endSym)
  else .error .assertion

end LL
