import AkVerif.Model.Common
import AkVerif.Gen.C18
/-!
Model of the table reader of `/repo/ak/xlsread.py` (C18): `iter_table` / `read_table` for one
object class, `XlsObject.construct`, `XlsObject.get_attr_origin`.

* A worksheet is what `worksheet.iter_rows()` yields: rows of cells; a cell is a value (`None`,
  `int` or `str`, as tagged scalar) and the coordinate text the worksheet gave it. The model never
  looks inside a coordinate except to sort coordinates as Python sorts strings.
* Cell converters (`cell_type.val_from_cell`) are parameters (`Conv.conv ct v`), so are the
  truth value of a converted value (`CellRangeSet`) and `is None` on it (`key_is_none`).
  The concrete converters of the repository (used by the driver only) are at the end of the file.
* The reading rules, one per attribute in `_ATTRS` order (`XlsObjReadRules.attrs_rules`):
  `ext d`            = `(None, None, {'default_val': d})` (or `None`, then `d` is `None`);
  `col t ct dflt`    = `(t, cell_type ct[, {'default_val': d}])`, `t` is not `"*"`;
  `range kind ct o`  = `('*', CellRangeDict/CellRangeSet(cell_type ct)[, {'default_val': …}])`.
* Python exceptions are `Except Err`; a generator that raised after having produced objects is
  `Out` (objects produced so far, the exception that ended the iteration if any).
-/
namespace Xls
open Ak

/-! ## values, cells, text -/

inductive Val where
  | blank | int (n : Int) | text (s : List Char)
  deriving DecidableEq, Repr, Inhabited

structure Cell where
  val : Val
  coord : List Char
  deriving DecidableEq, Repr, Inhabited

abbrev Row := List Cell
abbrev Sheet := List Row
abbrev Key := List Char

/-- `chr(c).isspace()`; the table is generated from the running Python -/
def isSpace (c : Char) : Bool := Gen.C18.spaces.contains c.toNat

/-- `str.strip()` -/
def strip (s : List Char) : List Char :=
  ((s.dropWhile isSpace).reverse.dropWhile isSpace).reverse

/-- `str(cell.value)` -/
def Val.str : Val → List Char
  | .blank => "None".toList
  | .int n => (toString n).toList
  | .text s => s

/-- `_cell_is_empty`: `cell.value is None or str(cell.value).strip() == ""` -/
def Val.isEmpty : Val → Bool
  | .blank => true
  | v => (strip v.str).isEmpty

/-- title of a column: `str(cell.value).strip() if cell.value is not None else ""` -/
def titleOf : Val → Key
  | .blank => []
  | v => strip v.str

/-- `_row_is_empty` -/
def rowEmpty (r : Row) : Bool := r.all (fun c => c.val.isEmpty)

/-! ## small Python containers -/

def mapE {α β : Type} (f : α → Except Err β) : List α → Except Err (List β)
  | [] => .ok []
  | a :: as =>
    match f a with
    | .error e => .error e
    | .ok b =>
      match mapE f as with
      | .error e => .error e
      | .ok bs => .ok (b :: bs)

/-- `d[k] = x` on an insertion-ordered dict -/
def dictSet {X : Type} : List (Key × X) → Key → X → List (Key × X)
  | [], k, x => [(k, x)]
  | (k', x') :: r, k, x => if k' = k then (k', x) :: r else (k', x') :: dictSet r k x

/-- `{k: x for k, x in pairs}` -/
def dictOf {X : Type} (l : List (Key × X)) : List (Key × X) :=
  l.foldl (fun d kx => dictSet d kx.1 kx.2) []

def dictGet {X : Type} : List (Key × X) → Key → Option X
  | [], _ => none
  | (k', x) :: r, k => if k' = k then some x else dictGet r k

/-- `{k for k in keys}` (first occurrence kept; order is irrelevant for a set and sorted at the
protocol boundary) -/
def setOf (l : List Key) : List Key :=
  l.foldl (fun s k => if s.contains k then s else s ++ [k]) []

/-- `a < b` on Python strings (code point order) -/
def ltCps : List Char → List Char → Bool
  | [], [] => false
  | [], _ :: _ => true
  | _ :: _, [] => false
  | a :: as, b :: bs =>
    if a.toNat < b.toNat then true else if b.toNat < a.toNat then false else ltCps as bs

/-- stable insertion sort for a strict order `lt` (Python's `sorted` is stable) -/
def insertBy {α : Type} (lt : α → α → Bool) (x : α) : List α → List α
  | [] => [x]
  | y :: ys => if lt y x then y :: insertBy lt x ys else x :: y :: ys

def sortBy {α : Type} (lt : α → α → Bool) (l : List α) : List α := l.foldr (insertBy lt) []

/-- `sorted(strings)` -/
def sortCps (l : List (List Char)) : List (List Char) := sortBy ltCps l

/-- `coord.rstrip('0123456789')`: the column letters of a coordinate -/
def coordColumn (c : List Char) : List Char := (c.reverse.dropWhile Char.isDigit).reverse

/-- `XlsObject._coord_sort_key`: `(len(column), column, int(row) if row else 0)` -/
def coordKey (c : List Char) : Nat × List Char × Nat :=
  ((coordColumn c).length, coordColumn c, Nat.ofDigitChars 10 (c.drop (coordColumn c).length) 0)

/-- `<` on such key tuples -/
def ltKey (a b : Nat × List Char × Nat) : Bool :=
  if a.1 < b.1 then true else if b.1 < a.1 then false
  else if ltCps a.2.1 b.2.1 then true else if ltCps b.2.1 a.2.1 then false
  else decide (a.2.2 < b.2.2)

def ltCoord (a b : List Char) : Bool := ltKey (coordKey a) (coordKey b)

/-- `sorted(coordinates, key=self._coord_sort_key)` -/
def sortCoords (l : List (List Char)) : List (List Char) := sortBy ltCoord l

/-! ## rules and their binding to the title row (`_ObjScrCellsMap.bind_titles_row`) -/

inductive RangeKind where
  | dict | set
  deriving DecidableEq, Repr

/-- A default is a factory (`default_val` callable, or `lambda: value`): `d k` is what its call
number `k` (0, 1, …) returns. -/
inductive Rule (V : Type) where
  | ext (d : Nat → V)
  | col (title : Key) (ct : Nat) (dflt : Option (Nat → V))
  | range (kind : RangeKind) (ct : Nat) (opt : Bool)

/-- one entry of `columns_map`: `None`, a column position, `(names, positions)` -/
inductive Slot where
  | none | at (j : Nat) | range (names : List Key) (ids : List Nat)
  deriving DecidableEq, Repr

/-- `col_names_ids[t]` of `{name: i for i, name in enumerate(cols_names)}`: the last position -/
def lookupLast : List Key → Key → Option Nat
  | [], _ => none
  | a :: as, t =>
    match lookupLast as t with
    | some j => some (j + 1)
    | none => if a = t then some 0 else none

/-- `get_known_columns_names` without the `None` of external attributes (a title is never `None`) -/
def knownTitles {V : Type} : List (Rule V) → List Key
  | [] => []
  | .col t _ _ :: rs => t :: knownTitles rs
  | _ :: rs => knownTitles rs

/-- `not col_is_not_range`: a titled column that no attribute names -/
def isRangeCol (known : List Key) (t : Key) : Bool := !t.isEmpty && !known.contains t

/-- the first maximal run of range columns -/
def rangeNames (known : List Key) (titles : List Key) : List Key :=
  (titles.dropWhile (fun t => !isRangeCol known t)).takeWhile (isRangeCol known)

def lookupAllLast (titles : List Key) : List Key → Option (List Nat)
  | [] => some []
  | n :: ns =>
    match lookupLast titles n, lookupAllLast titles ns with
    | some j, some js => some (j :: js)
    | _, _ => none

def bindRule {V : Type} (titles known : List Key) : Rule V → Except Err Slot
  | .ext _ => .ok .none
  | .col t _ dflt =>
    match lookupLast titles t with
    | some j => .ok (.at j)
    | none => if dflt.isSome then .ok .none else .error .valueError
  | .range _ _ opt =>
    let names := rangeNames known titles
    if names.isEmpty && !opt then .error .valueError
    else match lookupAllLast titles names with
      | some ids => .ok (.range names ids)
      | none => .error .keyError      -- `col_names_ids[n]`; proved impossible

/-- `known`: the titles named by the rules of *all* rule sets of the reader -/
def bindTitles {V : Type} (titles known : List Key) (rules : List (Rule V)) : Except Err (List Slot) :=
  mapE (bindRule titles known) rules

/-! ## one row → one object (`cells_from_row`, `XlsObject.construct`, `__init__`) -/

/-- what `cells_from_row` hands over per attribute -/
inductive Src where
  | none | cell (c : Cell) | range (names : List Key) (cells : List Cell)
  deriving Repr

def getCell (row : Row) (j : Nat) : Except Err Cell :=
  match row[j]? with
  | some c => .ok c
  | none => .error .indexError

def srcOf (row : Row) : Slot → Except Err Src
  | .none => .ok .none
  | .at j =>
    match getCell row j with
    | .ok c => .ok (.cell c)
    | .error e => .error e
  | .range names ids =>
    match mapE (getCell row) ids with
    | .ok cs => .ok (.range names cs)
    | .error e => .error e

/-- `all(cell.value is None for cell in cells[:n])`; `None.value` / `tuple.value` is an
`AttributeError`, reached only when all key cells before it are blank -/
def keyEmpty : List Src → Except Err Bool
  | [] => .ok true
  | .cell c :: rest => if c.val = .blank then keyEmpty rest else .ok false
  | _ :: _ => .error .attributeError

structure Conv (V : Type) where
  conv : Nat → Val → Except Err V
  truthy : V → Bool
  isNone : V → Bool

inductive AVal (V : Type) where
  | plain (v : V) | dict (items : List (Key × V)) | set (keys : List Key)
  deriving Repr, DecidableEq

/-- `_attrs_origins[attr]`: `"<n/a>"`, `"<skipped column>"`, a coordinate, `{title: coordinate}` -/
inductive Origin where
  | na | skipped | cell (c : List Char) | range (items : List (Key × List Char))
  deriving DecidableEq, Repr

def markedKeys {V : Type} (cv : Conv V) : List (Key × V) → List Key
  | [] => []
  | (k, v) :: r => if cv.truthy v then k :: markedKeys cv r else markedKeys cv r

/-- body of the loop in `XlsObject.__init__` -/
def initAttr {V : Type} (cv : Conv V) (k : Nat) : Rule V → Src → Except Err (AVal V × Origin)
  | .range kind ct _, .range names cells =>
    match mapE (fun c => cv.conv ct c.val) cells with
    | .error e => .error e
    | .ok vs =>
      let orgs := dictOf (names.zip (cells.map (fun c => c.coord)))
      match kind with
      | .dict => .ok (.dict (dictOf (names.zip vs)), .range orgs)
      | .set => .ok (.set (setOf (markedKeys cv (names.zip vs))), .range orgs)
  | .range _ _ _, _ => .error .typeError            -- `column_names, cells = cell`; unreachable
  | .ext d, .none => .ok (.plain (d k), .na)
  | .ext _, _ => .error .assertion                  -- `assert cell is None`; unreachable
  | .col _ _ dflt, .none =>
    match dflt with
    | some d => .ok (.plain (d k), .skipped)
    | none => .error .assertion                     -- `assert default_factory is not None`; unreachable
  | .col _ ct _, .cell c =>
    match cv.conv ct c.val with
    | .ok v => .ok (.plain v, .cell c.coord)
    | .error e => .error e
  | .col _ _ _, .range _ _ => .error .attributeError  -- unreachable

def zipInit {V : Type} (cv : Conv V) (k : Nat) :
    List (Rule V) → List Src → Except Err (List (AVal V × Origin))
  | r :: rs, s :: ss =>
    match initAttr cv k r s with
    | .error e => .error e
    | .ok a =>
      match zipInit cv k rs ss with
      | .error e => .error e
      | .ok as => .ok (a :: as)
  | _, _ => .ok []

/-- `serial` is not an attribute of the Python object: it records which run of `__init__` of its
rule set made the object (0, 1, …), i.e. which call of the default factories it got its defaults
from -/
structure Obj (V : Type) where
  attrs : List (AVal V × Origin)
  serial : Nat
  deriving Repr

def AVal.isNone {V : Type} (cv : Conv V) : AVal V → Bool
  | .plain v => cv.isNone v
  | _ => false

/-- `key_is_none` (for one key attribute `logic_id is None`, else `all(v is None …)`) -/
def keyIsNone {V : Type} (cv : Conv V) (numId : Nat) (attrs : List (AVal V × Origin)) : Bool :=
  (attrs.take numId).all (fun a => a.1.isNone cv)

/- The anchor cell (`_src_ws_name`, `_anchor_cell_coord`, used by `__str__` and in the message of
`ensure_equal` only) is the first entry of `cells_list` that is a cell, `"<n/a>"` if there is none:
it never fails and does not influence what is modelled here. -/

/-- `cls.construct(*cells_map.cells_from_row(row))`; `k` = how often `__init__` of this rule set has
run before (every run calls every default factory once) -/
def construct {V : Type} (cv : Conv V) (numId : Nat) (rules : List (Rule V)) (slots : List Slot)
    (k : Nat) (row : Row) : Except Err (Option (Obj V)) :=
  match mapE (srcOf row) slots with
  | .error e => .error e
  | .ok srcs =>
    match keyEmpty (srcs.take numId) with
    | .error e => .error e
    | .ok ke =>
      if ke && decide (0 < numId) then .ok none
      else if rules.length < numId then .error .assertion
      else match zipInit cv k rules srcs with
        | .error e => .error e
        | .ok attrs =>
          if decide (0 < numId) && keyIsNone cv numId attrs then .ok none else .ok (some ⟨attrs, k⟩)

/-- does `construct` get as far as `__init__` (and so calls the default factories) for this row?
(`false` for the rows it answers with `None` because all key cells are blank) -/
def ranInit (numId : Nat) (slots : List Slot) (row : Row) : Bool :=
  match mapE (srcOf row) slots with
  | .error _ => false
  | .ok srcs =>
    match keyEmpty (srcs.take numId) with
    | .error _ => false
    | .ok ke => !(ke && decide (0 < numId))

/-! ## the table (`XlsTableReader.iter_table`) -/

inductive Stop where
  | blankAll | blankFirst
  deriving DecidableEq, Repr

structure Cfg (V : Type) where
  stop : Stop
  ladder : Bool
  numId : Nat
  rules : List (Rule V)
  /-- titles named by the other rule sets of the same reader (none for `iter_table`) -/
  extra : List Key

/-- `known_cols_names`: the union over all rule sets of the reader -/
def Cfg.known {V : Type} (cfg : Cfg V) : List Key := knownTitles cfg.rules ++ cfg.extra

structure Out (V : Type) where
  objs : List (Option (Obj V))
  err : Option Err

/-- end-of-table test on a row after the title row -/
def endFires : Stop → Row → Except Err Bool
  | .blankAll, r => .ok (rowEmpty r)
  | .blankFirst, c :: _ => .ok c.val.isEmpty
  | .blankFirst, [] => .error .indexError

/-- `next((pos for pos, name in enumerate(cols_names) if name), None)` -/
def firstTitled : List Key → Option Nat
  | [] => none
  | t :: ts => if t.isEmpty then (firstTitled ts).map (· + 1) else some 0

/-- the ladder loop from position `i` on: blank cells take the cell of the previous row until the
first non-blank cell -/
def fillGo (prev : Row) : Nat → List Cell → Except Err (List Cell)
  | _, [] => .ok []
  | i, c :: cs =>
    if c.val.isEmpty then
      match prev[i]? with
      | none => .error .indexError
      | some pc =>
        match fillGo prev (i + 1) cs with
        | .error e => .error e
        | .ok r => .ok (pc :: r)
    else .ok (c :: cs)

def fillRow (p : Nat) (prev row : Row) : Except Err Row :=
  match fillGo prev p (row.drop p) with
  | .error e => .error e
  | .ok r => .ok (row.take p ++ r)

/-- `current_row`: `p` is `first_col_pos` (`none` when the table is not read as a ladder) -/
def curRow (p : Option Nat) (prev : Option Row) (row : Row) : Except Err Row :=
  match p, prev with
  | some p, some pr => fillRow p pr row
  | _, _ => .ok row

def nextK (numId : Nat) (slots : List Slot) (k : Nat) (cur : Row) : Nat :=
  if ranInit numId slots cur then k + 1 else k

def dataRows {V : Type} (cv : Conv V) (cfg : Cfg V) (slots : List Slot) (p : Option Nat) :
    Nat → Option Row → List Row → Out V
  | _, _, [] => ⟨[], none⟩
  | k, prev, row :: rest =>
    match endFires cfg.stop row with
    | .error e => ⟨[], some e⟩
    | .ok true => ⟨[], none⟩
    | .ok false =>
      match curRow p prev row with
      | .error e => ⟨[], some e⟩
      | .ok cur =>
        match construct cv cfg.numId cfg.rules slots k cur with
        | .error e => ⟨[], some e⟩
        | .ok o =>
          let out := dataRows cv cfg slots p (nextK cfg.numId slots k cur) (some cur) rest
          ⟨o :: out.objs, out.err⟩

def ladderPos {V : Type} (cfg : Cfg V) (titles : List Key) : Option Nat :=
  if cfg.ladder then firstTitled titles else none

def iterTable {V : Type} (cv : Conv V) (cfg : Cfg V) : Sheet → Out V
  | [] => ⟨[], none⟩
  | row :: rest =>
    if rowEmpty row then iterTable cv cfg rest
    else
      let titles := row.map (fun c => titleOf c.val)
      match bindTitles titles cfg.known cfg.rules with
      | .error e => ⟨[], some e⟩
      | .ok slots => dataRows cv cfg slots (ladderPos cfg titles) 0 none rest

/-! ## several objects per row: `XlsTableReader(rules_a, rules_b, …).iter_table(worksheet, …)` -/

/-- `sets`: `_NUM_ID_ATTRS` and the rules of every object class, in the order given to the reader -/
structure Reader (V : Type) where
  stop : Stop
  ladder : Bool
  sets : List (Nat × List (Rule V))

/-- titles named by a rule of any rule set of the reader -/
def allKnown {V : Type} : List (Nat × List (Rule V)) → List Key
  | [] => []
  | s :: ss => knownTitles s.2 ++ allKnown ss

/-- one rule set as `iter_table` sees it, with the reader's known titles -/
def Reader.cfgOf {V : Type} (r : Reader V) (s : Nat × List (Rule V)) : Cfg V :=
  ⟨r.stop, r.ladder, s.1, s.2, allKnown r.sets⟩

def Reader.cfgs {V : Type} (r : Reader V) : List (Cfg V) := r.sets.map r.cfgOf

/-- what the reader yields: per data row the list of results, one per rule set -/
structure OutM (V : Type) where
  rows : List (List (Option (Obj V)))
  err : Option Err

def bindAll {V : Type} (titles : List Key) (cfgs : List (Cfg V)) : Except Err (List (List Slot)) :=
  mapE (fun c => bindTitles titles c.known c.rules) cfgs

def constructAll {V : Type} (cv : Conv V) :
    List (Cfg V) → List (List Slot) → List Nat → Row → Except Err (List (Option (Obj V)))
  | c :: cs, sl :: sls, k :: ks, row =>
    match construct cv c.numId c.rules sl k row with
    | .error e => .error e
    | .ok o =>
      match constructAll cv cs sls ks row with
      | .error e => .error e
      | .ok os => .ok (o :: os)
  | _, _, _, _ => .ok []

def nextKs {V : Type} : List (Cfg V) → List (List Slot) → List Nat → Row → List Nat
  | c :: cs, sl :: sls, k :: ks, row => nextK c.numId sl k row :: nextKs cs sls ks row
  | _, _, _, _ => []

def dataRowsM {V : Type} (cv : Conv V) (stop : Stop) (cfgs : List (Cfg V)) (slotss : List (List Slot))
    (p : Option Nat) : List Nat → Option Row → List Row → OutM V
  | _, _, [] => ⟨[], none⟩
  | ks, prev, row :: rest =>
    match endFires stop row with
    | .error e => ⟨[], some e⟩
    | .ok true => ⟨[], none⟩
    | .ok false =>
      match curRow p prev row with
      | .error e => ⟨[], some e⟩
      | .ok cur =>
        match constructAll cv cfgs slotss ks cur with
        | .error e => ⟨[], some e⟩
        | .ok os =>
          let out := dataRowsM cv stop cfgs slotss p (nextKs cfgs slotss ks cur) (some cur) rest
          ⟨os :: out.rows, out.err⟩

def iterTableM {V : Type} (cv : Conv V) (r : Reader V) : Sheet → OutM V
  | [] => ⟨[], none⟩
  | row :: rest =>
    if rowEmpty row then iterTableM cv r rest
    else
      let titles := row.map (fun c => titleOf c.val)
      match bindAll titles r.cfgs with
      | .error e => ⟨[], some e⟩
      | .ok slotss =>
        dataRowsM cv r.stop r.cfgs slotss (if r.ladder then firstTitled titles else none)
          (r.cfgs.map fun _ => 0) none rest

/-- the titles of the sheet: those of its first row that is not blank -/
def titlesOf : Sheet → List Key
  | [] => []
  | row :: rest => if rowEmpty row then titlesOf rest else row.map (fun c => titleOf c.val)

/-- The default factories the read did not use: an optional attribute whose column is in the sheet is
read from its cells, its factory is never called, so the caller's next call of it is call number 0.
(`(attribute index, that value)` for every such attribute.) -/
def unusedDefaults {V : Type} (titles : List Key) : Nat → List (Rule V) → List (Nat × V)
  | _, [] => []
  | i, .col t _ (some d) :: rs =>
    if titles.contains t then (i, d 0) :: unusedDefaults titles (i + 1) rs
    else unusedDefaults titles (i + 1) rs
  | i, _ :: rs => unusedDefaults titles (i + 1) rs

/-! ## the wrappers around `iter_table` -/

/-- `list(generator)`: an exception raised by the generator loses what was yielded before -/
def readAll {V : Type} (out : Out V) : Except Err (List (Option (Obj V))) :=
  match out.err with
  | some e => .error e
  | none => .ok out.objs

/-- `read_table(worksheet, cls, rules, stop_on=…, ladder_format=…)` -/
def readTable {V : Type} (cv : Conv V) (cfg : Cfg V) (s : Sheet) : Except Err (List (Option (Obj V))) :=
  readAll (iterTable cv cfg s)

/-- `TableReader.read_list(worksheet)` of a class with `ATTR_RULES = rules`: `iter_xls` calls
`iter_table(worksheet, cls, cls.ATTR_RULES)`, i.e. always with the default end rule and never as a
ladder (the class attributes `STOP_ON` / `LADDER_FORMAT` are not passed on) -/
def readList {V : Type} (cv : Conv V) (numId : Nat) (rules : List (Rule V)) (s : Sheet) :
    Except Err (List (Option (Obj V))) :=
  readTable cv ⟨.blankAll, false, numId, rules, []⟩ s

/-! ## `get_attr_origin(attr[, range_key])` (strict, without the worksheet prefix) -/

def rangeDescr : List (List Char) → List Char
  | [] => Gen.C18.skippedOrigin
  | [c] => c
  | c :: d :: r => c ++ ':' :: (d :: r).getLast (by simp)

def attrOrigin : Origin → Option Key → Except Err (List Char)
  | .na, none => .ok Gen.C18.naOrigin
  | .skipped, none => .ok Gen.C18.skippedOrigin
  | .cell c, none => .ok c
  | .range items, none => .ok (rangeDescr (sortCoords (items.map (fun kc => kc.2))))
  | .range items, some k =>
    match dictGet items k with
    | some c => .ok c
    | none => .error .valueError
  | _, some _ => .error .valueError

/-! ## the ladder specification: the sheet with the blank leading cells of its data rows filled in -/

/-- rows after the title row: a data row (end rule does not fire) is replaced by what the ladder
reading substitutes for it; the first row the end rule fires on (or cannot be evaluated on) and
everything after it is left as it is -/
def fillRows (stop : Stop) (p : Option Nat) : Option Row → List Row → Except Err (List Row)
  | _, [] => .ok []
  | prev, row :: rest =>
    match endFires stop row with
    | .ok false =>
      match curRow p prev row with
      | .error e => .error e
      | .ok cur =>
        match fillRows stop p (some cur) rest with
        | .error e => .error e
        | .ok r => .ok (cur :: r)
    | _ => .ok (row :: rest)

def fillSheet (stop : Stop) : Sheet → Except Err Sheet
  | [] => .ok []
  | row :: rest =>
    if rowEmpty row then
      match fillSheet stop rest with
      | .error e => .error e
      | .ok r => .ok (row :: r)
    else
      match fillRows stop (firstTitled (row.map (fun c => titleOf c.val))) none rest with
      | .error e => .error e
      | .ok r => .ok (row :: r)

/-! ## worksheet coordinates as `openpyxl` (and the test mock) write them -/

def colNameAux : Nat → Nat → List Char → List Char
  | 0, _, acc => acc
  | f + 1, n, acc =>
    let acc' := Char.ofNat (65 + n % 26) :: acc
    if n < 26 then acc' else colNameAux f (n / 26 - 1) acc'

def colName (n : Nat) : List Char := colNameAux (n + 1) n []

def mkCoord (r c : Nat) : List Char := colName c ++ (toString (r + 1)).toList

def mkRow (r : Nat) : Nat → List Val → Row
  | _, [] => []
  | c, v :: vs => ⟨v, mkCoord r c⟩ :: mkRow r (c + 1) vs

def mkSheetFrom : Nat → List (List Val) → Sheet
  | _, [] => []
  | r, vs :: rest => mkRow r 0 vs :: mkSheetFrom (r + 1) rest

def mkSheet (rows : List (List Val)) : Sheet := mkSheetFrom 0 rows

/-! ## the converters of the repository (driver only; the theorems are about any `Conv`) -/

inductive StdV where
  | none | int (n : Int) | str (s : List Char) | bool (b : Bool)
  | list (l : List (List Char)) | set (l : List (List Char))
  deriving DecidableEq, Repr, Inhabited

/-- `s.split(sep)` -/
def splitOnChar (sep : Char) (s : List Char) : List (List Char) :=
  s.foldr (fun c acc =>
    match acc with
    | cur :: rest => if c = sep then [] :: cur :: rest else (c :: cur) :: rest
    | [] => [[c]]) [[]]

/-- `CellList._make_value` on a `str`: split at ',' and newline, strip, drop empty items -/
def listItems (s : List Char) : List (List Char) :=
  ((splitOnChar ',' (s.map fun c => if c = '\n' then ',' else c)).map strip).filter (fun i => !i.isEmpty)

def inTable (ints : List Int) (strs : List (List Char)) (hasNone : Bool) : Val → Bool
  | .blank => hasNone
  | .int n => ints.contains n
  | .text s => strs.contains s

/-- the look-up tables of a `CellBool(true_values=…, false_values=…, none_values=…)`; a table is the ints,
the strs and whether `None` is in it (cells hold `None`, `int` or `str`) -/
structure BoolTables where
  noneInts : List Int
  noneStrs : List (List Char)
  noneNone : Bool
  trueInts : List Int
  trueStrs : List (List Char)
  trueNone : Bool
  falseInts : List Int
  falseStrs : List (List Char)
  falseNone : Bool

/-- `CellBool.val_from_cell`: `none_values` first (`_CellReader.val_from_cell`), then `true_values`, then
`false_values`, else `ValueError` -/
def cellBool (t : BoolTables) (v : Val) : Except Err StdV :=
  if inTable t.noneInts t.noneStrs t.noneNone v then .ok .none
  else if inTable t.trueInts t.trueStrs t.trueNone v then .ok (.bool true)
  else if inTable t.falseInts t.falseStrs t.falseNone v then .ok (.bool false)
  else .error .valueError

/-- `cell_bool` = `CellBool()`: the tables of the source, no none values -/
def stdBool : BoolTables :=
  ⟨[], [], false, Gen.C18.trueInts, Gen.C18.trueStrs, Gen.C18.trueNone,
   Gen.C18.falseInts, Gen.C18.falseStrs, Gen.C18.falseNone⟩

/-- the `CellBool` objects with constructor options that the check uses (converter numbers 9-12):
9 `CellBool(true_values=[None, ''], false_values=['x', '-'])` ("opt-out" columns: a blank cell is `True`),
10 `CellBool(true_values=['x', 'v', 1], false_values=[None, '', 0, '-'], none_values=['?', 'n/a'])`,
11 `CellBool(true_values=[None, 0], false_values=[1, 'x'], none_values=[''])`,
12 `CellBool(none_values=[None])` (the tables of the source; a blank cell is `None`, not `False`) -/
def optBool : Nat → Option BoolTables
  | 9 => some ⟨[], [], false, [], [[]], true, [], [['x'], ['-']], false⟩
  | 10 => some ⟨[], [['?'], ['n', '/', 'a']], false, [1], [['x'], ['v']], false, [0], [[], ['-']], true⟩
  | 11 => some ⟨[], [[]], false, [0], [], true, [1], [['x']], false⟩
  | 12 => some { stdBool with noneNone := true }
  | _ => none

/-- converter numbers: 0 `cell_str`, 1 `cell_int`, 2 `cell_bool`,
3 `CellStr(none_values=[None, 'x'])`, 4 `CellInt(none_values=[None, 0])`, 5 `CellStr(none_values=[])`,
6 `cell_list`, 7 `cell_set`, 8 `CellList(none_values=[])`, 9-12 `CellBool` with options (`optBool`) -/
def stdConvFn (ct : Nat) (v : Val) : Except Err StdV :=
  let cellStr : Val → StdV := fun v => match v with
    | .blank => .str []
    | v => .str (strip v.str)
  let cellInt : Val → Except Err StdV := fun v => match v with
    | .int n => .ok (.int n)
    | _ => .error .valueError
  match ct with
  | 0 => if v = .blank then .ok .none else .ok (cellStr v)
  | 1 => if v = .blank then .ok .none else cellInt v
  | 2 => cellBool stdBool v
  | 3 => if v = .blank || v = .text ['x'] then .ok .none else .ok (cellStr v)
  | 4 => if v = .blank || v = .int 0 then .ok .none else cellInt v
  | 5 => .ok (cellStr v)
  | 6 => match v with
    | .blank => .ok .none
    | .text s => .ok (.list (listItems s))
    | .int _ => .error .valueError
  | 7 => match v with
    | .blank => .ok .none
    | .text s => .ok (.set (setOf (listItems s)))
    | .int _ => .error .valueError
  | 8 => match v with
    | .blank => .ok (.list [])
    | .text s => .ok (.list (listItems s))
    | .int _ => .error .valueError
  | ct =>
    match optBool ct with
    | some t => cellBool t v
    | none => .error .assertion

def stdTruthy : StdV → Bool
  | .none => false
  | .int n => n != 0
  | .str s => !s.isEmpty
  | .bool b => b
  | .list l => !l.isEmpty
  | .set l => !l.isEmpty

def stdConv : Conv StdV :=
  { conv := stdConvFn, truthy := stdTruthy, isNone := fun v => v == StdV.none }

end Xls
