import AkVerif.Model.Common
import AkVerif.Model.Sgr
/-!
Rendering of printable objects, reduced to what C10 is about (`/repo/ak/color.py` `_CHTextChunk`,
`CHText.make/_merge_chunks/_append_chunk/join/__str__/plain_text/strip_colors`, and the way
`PrettyPrinter`, `PPTable`, `PPRecordFmt`, `GHistReport`, `HCommand` emit chunks).

A printable object arrives as a *shape*: its lines, each a list of chunks, every chunk with the
text and with a *tag* saying where the real code took the colour from:

* `plain`            — a plain `str` / `Chunk.make_plain` (never coloured);
* `pal cls acc`      — accessor number `acc` of the palette of class `cls` (the object's own palette
                       or a sub-palette obtained with `get_sub_palette`);
* `enum e v cls acc` — the same, but the chunk goes through the cell cache of enum field type `e`
                       for the enum value number `v` (`PPEnumFieldType._cache`; the number stands for the cache key
                       `(type(value), value)`).

The layout (texts, line breaks) is in the shape; colours are applied by `paint`, which is all a
palette can do to the output.  `Chunk` keeps the prefix only: the suffix is `ESC[0m` exactly when the
prefix is not empty (`_ColorSequences.make`).
-/
namespace Render

abbrev Text := List Char
/-- SGR prefix of a chunk; `[]` = no effects (`ColorFmt` of the no-colour palettes) -/
abbrev Color := List Char

def esc : Char := Char.ofNat 27
def resetSeq : List Char := [esc, '[', '0', 'm']

structure Chunk where
  pre : Color
  text : Text
  deriving DecidableEq, Repr

def Chunk.suffix (c : Chunk) : List Char := if c.pre = [] then [] else resetSeq
/-- `_CHTextChunk.__str__` -/
def Chunk.str (c : Chunk) : List Char := c.pre ++ (c.text ++ c.suffix)

/-- `CHText.__str__` / `"".join(str(chunk))` for a raw list of chunks -/
def strOf : List Chunk → List Char
  | [] => []
  | c :: cs => c.str ++ strOf cs

/-- `CHText.plain_text` -/
def plainOf : List Chunk → List Char
  | [] => []
  | c :: cs => c.text ++ plainOf cs

/-- every visible character with the colour it is printed in -/
def cellsOf : List Chunk → List (Char × Color)
  | [] => []
  | c :: cs => c.text.map (fun ch => (ch, c.pre)) ++ cellsOf cs

/-- `CHText._merge_chunks` (`CHText.make`): maximal runs of neighbours with equal prefix become one
chunk; chunks with empty text are kept (and take part in the merging) -/
def mergeAdj : List Chunk → List Chunk
  | [] => []
  | c :: rest =>
    match mergeAdj rest with
    | [] => [c]
    | d :: ds => if c.pre = d.pre then ⟨c.pre, c.text ++ d.text⟩ :: ds else c :: d :: ds

/-- `CHText._append_chunk`; the accumulated chunks are kept in reverse order -/
def appendRev (acc : List Chunk) (c : Chunk) : List Chunk :=
  if c.text = [] then acc else
  match acc with
  | [] => [c]
  | d :: ds => if d.pre = c.pre then ⟨d.pre, d.text ++ c.text⟩ :: ds else c :: d :: ds

/-- `CHText(*parts)` / `+=` over a list of chunks: empty chunks dropped, neighbours merged -/
def buildText (cs : List Chunk) : List Chunk := (cs.foldl appendRev []).reverse

/-! ### shapes -/

inductive Tag where
  | plain
  | pal (cls : Nat) (acc : Nat)
  | enum (e : Nat) (v : Nat) (cls : Nat) (acc : Nat)
  deriving DecidableEq, Repr

structure SChunk where
  tag : Tag
  text : Text
  deriving DecidableEq, Repr

/-- `raw`: the generator yields a `list` of chunks (`_PPTableImpl._make_table_line`);
`made`: it yields a `CHText` (built by `CHText.make` or by the constructor) -/
inductive LineKind where
  | raw | made
  deriving DecidableEq, Repr

structure SLine where
  kind : LineKind
  chunks : List SChunk
  deriving DecidableEq, Repr

def paintChunks (col : Tag → Color) (cs : List SChunk) : List Chunk :=
  cs.map fun c => ⟨col c.tag, c.text⟩

/-- one generated line, as the consumer of the iterator receives it -/
def paintLine (col : Tag → Color) (l : SLine) : List Chunk :=
  match l.kind with
  | .raw => paintChunks col l.chunks
  | .made => mergeAdj (paintChunks col l.chunks)

def paintLines (col : Tag → Color) (ls : List SLine) : List (List Chunk) := ls.map (paintLine col)

def sepChunk (sep : Char) : Chunk := ⟨[], [sep]⟩

/-- chunks of all lines with the separator chunk between consecutive lines -/
def joinLines (sep : Char) : List (List Chunk) → List Chunk
  | [] => []
  | [l] => l
  | l :: rest => l ++ sepChunk sep :: joinLines sep rest

/-- `CHText(sep).join(lines)` — `PPObj.make_ch_text` with `sep = '\n'`, `PPRecordChData.ch_text` with `' '` -/
def wholeOf (sep : Char) (lines : List (List Chunk)) : List Chunk := buildText (joinLines sep lines)

/-- `sep.join(str(line) for line in lines)` — `HCommand._make_help_text`, `PPRecordChData.__str__` -/
def joinStr (sep : Char) : List (List Chunk) → List Char
  | [] => []
  | [l] => strOf l
  | l :: rest => strOf l ++ sep :: joinStr sep rest

def joinCells (sep : Char) : List (List Chunk) → List (Char × Color)
  | [] => []
  | [l] => cellsOf l
  | l :: rest => cellsOf l ++ (sep, []) :: joinCells sep rest

/-! ### `CHText.strip_colors`

The model of `strip_colors` is C09's (`Sgr.strip`, `Model/Sgr.lean`): a regular-expression scanner over a
character class that is *generated from the pattern in the source* (`\\d` = all Unicode decimal digits). The
driver executes it on every coloured whole text (`Drv/C10.lean`), the theorems are stated with it. -/

/-- the parameter characters the package itself emits: ASCII digits, `;`, `:` -/
def isSgrParam (c : Char) : Bool := c.isDigit || c == ';' || c == ':'

/-- a prefix the package can produce: empty, or `ESC [ params m` -/
def ValidPrefix (p : Color) : Prop :=
  p = [] ∨ ∃ ps : List Char, (∀ c ∈ ps, isSgrParam c = true) ∧ p = esc :: '[' :: (ps ++ ['m'])

end Render
