import AkVerif.Model.Common
import AkVerif.Gen.C17
/-!
Model of `/repo/ak/conn_http.py` and of `MCallerHttp.clone` / `get_conn` (`/repo/ak/mcaller_http.py`) — C17.

Objects that Python shares by reference live in an explicit heap (`Heap`) of `Nat` references:

* `lists`   — every Python list of adapters: the lists the *caller* built and passes as
              `adapters=[…]` / `clone([…])` (their references are recorded in `userLists`) and the
              `adapters` attribute of every connection (`Conn.alist`);
* `dicts`   — every dict object: the caller's `headers=` / `params=` dictionaries (`userDicts`) and the
              `headers` of every `RequestArguments` (a fresh object per request);
* `impls`   — `_HttpConnImpl` objects (address, "send ids" flag, id counter), shared by all connections
              derived from one another (`conn_impl`);
* `conns`   — `_HttpConnBase` objects;
* `callers` — `MCallerHttp` objects (`http_conn`, the class's `_HTTP_PREFIX_MAP`, `_mc_conns_by_prefix`);
* `classes` — subclasses of `MCallerHttp` (bases, MRO, own wrappers, the `_MCALLERS_METAS` table).

What follows the code line by line:
* `mkConn`     — `_HttpConnBase.__init__`: `self.adapters = self.own_adapters + self.parent_conn.adapters`
                 allocates a *new* list; a `str` address loses one trailing `/`, the list / dict forms
                 of `conn_data` do not; `own_adapters` (used for `__str__` only) is not modelled;
* `addAdapter` — `self.adapters.append(adapter)` writes through the connection's own list reference;
* `applyReq`   — `process_req_args` of the three auth adapters (`assert 'Authorization' not in headers`,
                 exact key), of the path prefix adapter, and of the harness's adapters (tracing: appends
                 its tag to `X-Trace`; refusing: raises; the response processors leave the request alone);
* `procResp`   — `process_response`: identity for the repository's adapters; tracing / unwrap / len /
                 filter / nullify / raising for the harness's;
* `request`    — `_HttpConnImpl.do_request`: `RequestArguments.headers` is a *new dict object* holding a
                 copy of the caller's headers; the adapters (`applyAllH`) and the id / content-type
                 assignments write to that object; url, method default, body by type (`json.dumps` =
                 `J.dumps`, `bool(data)` = `Body.truthy`), `urllib.request.Request` normalising header
                 names with `str.capitalize` (later key wins); the decoded response goes through the
                 response processors in reverse order (`respFold`); an exception of an adapter ends the
                 request (before sending: nothing sent, no id taken);
* `getConn`    — `MCallerHttp.get_conn` with the per-caller cache keyed by prefix;
* `clone`      — `MCallerHttp.clone` (after fix 622d998).

Library text: `json.loads` of the response body comes from the harness as a parsed value (`Args.resp`);
`base64.b64encode` is a parameter of the adapter constructors (`mkBasic`, `mkClient`); `b64enc` is the
instance the driver uses (`Lemmas/HttpConnB64.lean` proves its decode law). `quotePlus`/`urlencode`
follow `urllib.parse` for `str` keys and values. `str.upper/lower/capitalize` are the ASCII ones
(header names and methods are ASCII). The list and dict forms of `conn_data` are one `Target.addr`.
-/
namespace HttpConn
open Ak

abbrev Str := List Char

/-! ## text helpers -/

def utf8 (c : Char) : List Nat :=
  let n := c.toNat
  if n < 0x80 then [n]
  else if n < 0x800 then [0xC0 + n / 64, 0x80 + n % 64]
  else if n < 0x10000 then [0xE0 + n / 4096, 0x80 + n / 64 % 64, 0x80 + n % 64]
  else [0xF0 + n / 262144, 0x80 + n / 4096 % 64, 0x80 + n / 64 % 64, 0x80 + n % 64]

def utf8s (s : Str) : List Nat := s.flatMap utf8

def b64c (n : Nat) : Char :=
  if n < 26 then Char.ofNat (65 + n) else if n < 52 then Char.ofNat (71 + n)
  else if n < 62 then Char.ofNat (n - 4) else if n = 62 then '+' else '/'

/-- `base64.b64encode` (standard alphabet, `=` padding) -/
def b64enc : List Nat → Str
  | a :: b :: c :: r =>
    let n := a * 65536 + b * 256 + c
    b64c (n / 262144) :: b64c (n / 4096 % 64) :: b64c (n / 64 % 64) :: b64c (n % 64) :: b64enc r
  | [a, b] => let n := a * 1024 + b * 4; [b64c (n / 4096), b64c (n / 64 % 64), b64c (n % 64), '=']
  | [a] => let n := a * 16; [b64c (n / 64), b64c (n % 64), '=', '=']
  | [] => []

def hexDigit (n : Nat) : Char := if n < 10 then Char.ofNat (48 + n) else Char.ofNat (55 + n)

def isUnreserved (c : Char) : Bool := c.isAlphanum || c = '_' || c = '.' || c = '-' || c = '~'

/-- `urllib.parse.quote_plus` of a `str` -/
def quotePlus (s : Str) : Str :=
  s.flatMap fun c =>
    if c = ' ' then ['+'] else if isUnreserved c then [c]
    else (utf8 c).flatMap fun b => ['%', hexDigit (b / 16), hexDigit (b % 16)]

abbrev UDict := List (Str × Str)

/-- `urllib.parse.urlencode` of a dict of strings -/
def urlencode : UDict → Str
  | [] => []
  | [(k, v)] => quotePlus k ++ '=' :: quotePlus v
  | (k, v) :: r => quotePlus k ++ '=' :: quotePlus v ++ '&' :: urlencode r

def upper (s : Str) : Str := s.map Char.toUpper
def lower (s : Str) : Str := s.map Char.toLower
/-- `str.capitalize` (ASCII): what `urllib.request.Request.add_header` does to a header name -/
def capitalize : Str → Str
  | [] => []
  | c :: r => c.toUpper :: lower r

def startsWithSlash : Str → Bool
  | '/' :: _ => true
  | _ => false

def endsWithSlash (s : Str) : Bool := s.getLast? = some '/'

/-! ## JSON values (structured request bodies, decoded responses) -/

mutual
/-- what `json.loads` returns / `json.dumps` accepts here: no floats; object keys are strings -/
inductive J where
  | null | bool (b : Bool) | num (n : Int) | str (s : Str)
  | arr (l : JL)      -- the keys of the items are ignored
  | obj (kv : JL)
  | raw               -- the urllib response object itself (`raw_response=True`); never part of a body
  deriving DecidableEq, Repr
inductive JL where
  | nil | cons (k : Str) (v : J) (r : JL)
  deriving DecidableEq, Repr
end

def JL.length : JL → Nat
  | .nil => 0
  | .cons _ _ r => r.length + 1

/-- `d[k]` / `k in d` -/
def JL.lookup : JL → Str → Option J
  | .nil, _ => none
  | .cons k v r, key => if k = key then some v else r.lookup key

def JL.filter (p : J → Bool) : JL → JL
  | .nil => .nil
  | .cons k v r => if p v then .cons k v (r.filter p) else r.filter p

/-- `l + [v]` -/
def JL.snoc : JL → J → JL
  | .nil, x => .cons [] x .nil
  | .cons k v r, x => .cons k v (r.snoc x)

/-- `bool(v)` -/
def J.truthy : J → Bool
  | .null => false
  | .bool b => b
  | .num n => n != 0
  | .str s => !s.isEmpty
  | .arr l => l.length != 0
  | .obj kv => kv.length != 0
  | .raw => true

def hex4 (n : Nat) : Str :=
  let h (d : Nat) : Char := if d < 10 then Char.ofNat (48 + d) else Char.ofNat (87 + d)
  ['\\', 'u', h (n / 4096 % 16), h (n / 256 % 16), h (n / 16 % 16), h (n % 16)]

/-- `json.encoder.py_encode_basestring_ascii` for one character -/
def escChar (c : Char) : Str :=
  let n := c.toNat
  if c = '"' then ['\\', '"'] else if c = '\\' then ['\\', '\\']
  else if 32 ≤ n ∧ n ≤ 126 then [c]
  else if n = 10 then ['\\', 'n'] else if n = 13 then ['\\', 'r'] else if n = 9 then ['\\', 't']
  else if n = 8 then ['\\', 'b'] else if n = 12 then ['\\', 'f']
  else if n < 0x10000 then hex4 n
  else hex4 (0xD800 + (n - 0x10000) / 1024) ++ hex4 (0xDC00 + (n - 0x10000) % 1024)

def dumpStr (s : Str) : Str := '"' :: s.flatMap escChar ++ ['"']

mutual
/-- `json.dumps(v)` with the default settings (`ensure_ascii`, separators `", "` and `": "`) -/
def J.dumps : J → Str
  | .null => "null".toList
  | .bool true => "true".toList
  | .bool false => "false".toList
  | .num n => (toString n).toList
  | .str s => dumpStr s
  | .arr l => '[' :: JL.dumpsArr l ++ [']']
  | .obj kv => '{' :: JL.dumpsObj kv ++ ['}']
  | .raw => []        -- not serialisable (json.dumps raises); the protocol never puts it into a body
def JL.dumpsArr : JL → Str
  | .nil => []
  | .cons _ v .nil => v.dumps
  | .cons _ v r => v.dumps ++ ',' :: ' ' :: JL.dumpsArr r
def JL.dumpsObj : JL → Str
  | .nil => []
  | .cons k v .nil => dumpStr k ++ ':' :: ' ' :: v.dumps
  | .cons k v r => dumpStr k ++ ':' :: ' ' :: v.dumps ++ ',' :: ' ' :: JL.dumpsObj r
end

/-! ## header dictionaries (insertion ordered) -/

inductive HVal where
  | str (s : Str)
  | bytes (s : Str)
  | genId            -- the generated request id (its text is C16's business)
  | int (n : Int)    -- values a caller may put into `params=`: `str(v)` is what `urlencode` sends
  | bool (b : Bool)
  | pyNone
  deriving DecidableEq, Repr

abbrev Dict := List (Str × HVal)

def dhas (d : Dict) (k : Str) : Bool := d.any (·.1 = k)

def dget : Dict → Str → Option HVal
  | [], _ => none
  | (k', v) :: r, k => if k' = k then some v else dget r k

/-- `d[k] = v`: replaces in place, new keys go last -/
def dset : Dict → Str → HVal → Dict
  | [], k, v => [(k, v)]
  | (k', v') :: r, k, v => if k' = k then (k', v) :: r else (k', v') :: dset r k v

/-! ## adapters -/

inductive AuthKind where
  | basic | client | token
  deriving DecidableEq, Repr

inductive Adapter where
  | pfx (p : Str)                       -- RequestAdapterAddPathPrefix
  | auth (kind : AuthKind) (hdr : HVal) -- the header value is computed in the adapter's `__init__`
  | trace (tag : Str)                   -- harness adapter (subclass of RequestAdapter)
  -- harness adapters with a real `process_response` (identity on the request):
  | unwrap (key : Str)                  -- `rv[key]` if `rv` is a dict that has the key
  | count                               -- `len(rv)` of a list / str / dict
  | compact                             -- `[x for x in rv if x]` of a list
  | nullify                             -- `rv if rv else None`
  | boom (onRequest : Bool)             -- raises ValueError in process_req_args / in process_response
  -- harness adapters that REBIND a field of `req_args` to a new object (they never touch the caller's):
  | addParam (k v : Str)                -- `req_args.params = list(pairs of req_args.params) + [(k, v)]`
  | wrapData (key : Str)                -- `req_args.data = {key: req_args.data}` for a structured body
  -- harness adapter that itself sends a request (`target.get("/nested")`, result unused) from inside
  -- process_req_args (`onRequest`) or process_response, every time or on first use only (`id`: the object)
  | nested (target : Nat) (firstOnly onRequest : Bool) (id : Nat)
  deriving DecidableEq, Repr

/-- `BAuthConn.Adapter(login, password)` -/
def mkBasic (b64 : List Nat → Str) (login pw : Str) : Adapter :=
  .auth .basic (.bytes (Gen.C17.basicPrefix ++ b64 (utf8s (login ++ Gen.C17.credSep ++ pw))))
/-- `ClientAuthConn.Adapter(client_name, client_id, client_secret)` -/
def mkClient (b64 : List Nat → Str) (cid secret : Str) : Adapter :=
  .auth .client (.bytes (Gen.C17.clientPrefix ++ b64 (utf8s (cid ++ Gen.C17.credSep ++ secret))))
/-- `TokenAuthConn.Adapter(token)` -/
def mkToken (tok : Str) : Adapter := .auth .token (.str (Gen.C17.bearerPrefix ++ tok))

def xtrace : Str := "X-Trace".toList

/-- the part of `RequestArguments` the adapters of the repository write -/
structure RA where
  path : Str
  headers : Dict
  deriving DecidableEq, Repr

/-- `RequestAdapterAddPathPrefix.process_req_args` -/
def joinPrefix (p path : Str) : Str :=
  match path with
  | '/' :: r => if endsWithSlash p then p ++ r else p ++ path
  | _ => p ++ path

def applyReq (a : Adapter) (ra : RA) : Except Err RA :=
  match a with
  | .pfx p => .ok { ra with path := joinPrefix p ra.path }
  | .auth _ h =>
    if dhas ra.headers Gen.C17.authHeader then .error .assertion
    else .ok { ra with headers := dset ra.headers Gen.C17.authHeader h }
  | .trace t =>
    match dget ra.headers xtrace with
    | none => .ok { ra with headers := dset ra.headers xtrace (.str t) }
    | some (.str s) => .ok { ra with headers := dset ra.headers xtrace (.str (s ++ t)) }
    | some _ => .error .typeError
  | .boom true => .error .valueError
  | _ => .ok ra

/-- `for adapter in adapters: adapter.process_req_args(req_args)` -/
def applyAll : List Adapter → RA → Except Err RA
  | [], ra => .ok ra
  | a :: as, ra =>
    match applyReq a ra with
    | .ok ra' => applyAll as ra'
    | .error e => .error e

def traceTag : Adapter → Option Str
  | .trace t => some t
  | _ => none

/-- `adapter.process_response(return_value)` -/
def procResp : Adapter → J → Except Err J
  | .trace t, .arr l => .ok (.arr (l.snoc (.str t)))
  | .trace t, v => .ok (.arr (.cons [] v (.cons [] (.str t) .nil)))
  | .unwrap k, .obj kv =>
    match kv.lookup k with
    | some v => .ok v
    | none => .ok (.obj kv)
  | .count, .arr l => .ok (.num l.length)
  | .count, .obj kv => .ok (.num kv.length)
  | .count, .str s => .ok (.num s.length)
  | .compact, .arr l => .ok (.arr (l.filter J.truthy))
  | .nullify, v => .ok (if v.truthy then v else .null)
  | .boom false, _ => .error .valueError
  | _, v => .ok v

/-- `for adapter in adapters[::-1]: ret_val = adapter.process_response(ret_val)`: the last adapter
of the list sees the decoded response first, the first adapter produces what the caller gets -/
def respFold : List Adapter → J → Except Err J
  | [], decoded => .ok decoded
  | a :: as, decoded =>
    match respFold as decoded with
    | .ok v => procResp a v
    | .error e => .error e

/-- `response.data.decode('utf-8')`, then `json.loads` unless empty (`none` = empty response body;
the parsed value comes from the harness); with
`raw_response=True` the response object itself goes to the processors -/
def decodeResp (rawResponse : Bool) : Option J → J
  | none => if rawResponse then .raw else .str []
  | some v => if rawResponse then .raw else v

/-! ## request assembly -/

inductive Body where
  | none
  | bytes (b : List Nat)
  | str (s : Str)
  | json (v : J)       -- anything that is not None / bytes / str
  deriving DecidableEq, Repr

def Body.truthy : Body → Bool
  | .none => false
  | .bytes b => !b.isEmpty
  | .str s => !s.isEmpty
  | .json v => v.truthy

structure Impl where
  address : Str
  sendIds : Bool
  ctr : Nat
  deriving DecidableEq, Repr

/-- what reaches `opener.open` (and what `do_request` returns, `resp`) -/
structure Sent where
  url : Str
  method : Str
  headers : Dict          -- `Request.headers`: names capitalised, later wins
  body : Option (List Nat)
  genId : Option Nat      -- the number taken from the connection's counter, if an id was generated
  resp : Except Err J     -- what `do_request` returns, or the exception of a response processor
  nested : List Str       -- urls of the requests that adapters of the chain sent while this one was processed
  deriving DecidableEq, Repr

/-- `Request.__init__`: `for key, value in headers.items(): self.headers[key.capitalize()] = value` -/
def normalize (d : Dict) : Dict :=
  d.foldl (fun acc kv => dset acc (capitalize kv.1) kv.2) []

def withQuery (path : Str) (params : Option UDict) : Str :=
  match params with
  | some (kv :: r) => path ++ '?' :: urlencode (kv :: r)
  | _ => path

def mkUrl (address path : Str) : Str :=
  if !endsWithSlash address && !startsWithSlash path then address ++ '/' :: path else address ++ path

def hasIdHeader (d : Dict) : Bool := d.any fun kv => lower kv.1 = Gen.C17.idHeaderLower

def withId (sendIds : Bool) (d : Dict) : Dict × Bool :=
  if sendIds && !hasIdHeader d then (dset d Gen.C17.idHeader .genId, true) else (d, false)

def mkMethod (m : Option Str) (data : Body) : Str :=
  match m with
  | some (c :: r) => upper (c :: r)
  | _ => if data.truthy then Gen.C17.postMethod else Gen.C17.getMethod

def mkBody (data : Body) (h : Dict) : Option (List Nat) × Dict :=
  match data with
  | .none => (none, h)
  | .bytes b => (some b, h)
  | .str s => (some (utf8s s), h)
  | .json v =>
    (some (utf8s v.dumps), if dhas h Gen.C17.ctHeader then h else dset h Gen.C17.ctHeader (.str Gen.C17.ctValue))

/-- the header dict after the id and content-type assignments of `do_request` (they go to the same
dict object the adapters wrote to) -/
def finalHeaders (impl : Impl) (ra : RA) (data : Body) : Dict :=
  (mkBody data (withId impl.sendIds ra.headers).1).2

/-- `req_args.params` after one adapter: only the params adapter of the harness rebinds it -/
def paramStep (p : Option UDict) : Adapter → Option UDict
  | .addParam k v => some ((match p with | some l => l | none => []) ++ [(k, v)])
  | _ => p

/-- `req_args.params` after the adapters of the chain (the fields of `RequestArguments` are independent:
no adapter reads one field to write another) -/
def finalParams (as : List Adapter) (p : Option UDict) : Option UDict := as.foldl paramStep p

/-- `req_args.data` after one adapter -/
def bodyStep (b : Body) : Adapter → Body
  | .wrapData key => match b with
    | .json v => .json (.obj (.cons key v .nil))
    | other => other
  | _ => b

def finalBody (as : List Adapter) (b : Body) : Body := as.foldl bodyStep b

/-- steps 2-4 of `do_request` and the `Request` constructor -/
def assemble (impl : Impl) (ra : RA) (method : Option Str) (params : Option UDict) (data : Body)
    (resp : Except Err J) : Sent :=
  let w := withId impl.sendIds ra.headers
  let b := mkBody data w.1
  { url := mkUrl impl.address (withQuery ra.path params), method := mkMethod method data,
    headers := normalize b.2, body := b.1, genId := if w.2 then some impl.ctr else none, resp,
    nested := [] }

/-! ## heap -/

structure Conn where
  impl : Nat
  alist : Nat     -- reference of `self.adapters`
  plain : Bool    -- `isinstance(self, HttpConn)`
  deriving DecidableEq, Repr

structure Caller where
  conn : Nat
  pmap : UDict                -- `_HTTP_PREFIX_MAP` as `type(self)` sees it: component → prefix
  cache : List (Str × Nat)    -- `_mc_conns_by_prefix`
  cls : Nat                   -- `type(self)`
  deriving DecidableEq, Repr

/-- components of a wrapper: `None`, or a list of names -/
abbrev Comps := Option (List Str)

/-- how the bodies of the wrappers of one class statement are written (what decides which frames are on
Python's stack when `get_conn()` runs) -/
structure Bodies where
  /-- wrappers whose body only evaluates `self.<inner>(…)`; the flag: the body itself drives (consumes)
  a generator / coroutine object that this call returns, instead of handing it on to its own caller -/
  delegates : List (Str × Str × Bool)
  /-- wrappers written as generator / coroutine functions: calling them runs nothing, the body runs
  when the returned object is driven - by whoever drives it -/
  deferred : List Str
  /-- wrappers whose body reaches `get_conn()` through a helper function (`_shared_conn`, a helper
  generator `_gen_conn`): the name of the helper's frame -/
  reach : List (Str × Str)
  deriving DecidableEq, Repr

/-- a subclass of `MCallerHttp` -/
structure ClassDef where
  bases : List Nat            -- direct bases, in the order of the class statement
  mro : List Nat              -- `cls.__mro__` (Python's C3 linearisation, supplied; the class itself first)
  pmap : Option UDict         -- `_HTTP_PREFIX_MAP` if the class body defines it
  own : List (Str × Comps)    -- wrappers defined in the class body: name ↦ components of `method_http`
  metas : List (Str × Comps)  -- `_MCALLERS_METAS` as computed by the metaclass
  bodies : Bodies             -- how the wrapper bodies of the class statement are written
  deriving DecidableEq, Repr

structure Heap where
  lists : List (List Adapter)
  userLists : List Nat
  dicts : List Dict        -- every dict object: the caller's (`userDicts`) and `RequestArguments.headers`
  userDicts : List Nat
  impls : List Impl
  conns : List Conn
  callers : List Caller
  classes : List ClassDef
  datas : List J           -- the caller's structured `data=` objects (dicts / lists …): read by `json.dumps` only
  fired : List Nat         -- "first use only" nesting adapters (by object id) that have sent their request
  lastSent : Nat           -- bookkeeping for the protocol: requests handed to the opener by the last request / call
  deriving DecidableEq, Repr

def Heap.empty : Heap := ⟨[], [], [], [], [], [], [], [], [], [], 0⟩

/-- `conn_data` of a connection constructor -/
inductive Target where
  | conn (p : Nat)
  | addr (a : Str) (isStr : Bool) (sendIds : Bool)  -- `"http://…"` | `["http://…", flag]`
  deriving DecidableEq, Repr

/-- the `adapters` argument: absent, one adapter, or a list object of the caller -/
inductive Own where
  | none
  | one (a : Adapter)
  | list (l : Nat)
  deriving DecidableEq, Repr

/-- the `data=` argument: nothing, bytes, text, or a structured object of the caller (a reference) -/
inductive DataArg where
  | none
  | bytes (b : List Nat)
  | str (s : Str)
  | obj (r : Nat)
  deriving DecidableEq, Repr

structure Args where
  path : Str
  method : Option Str
  params : Option Nat
  data : DataArg
  headers : Option Nat
  resp : Option J      -- the body of the (fake) response: `none` = empty, else the parsed json
  raw : Bool           -- `raw_response=True`
  deriving DecidableEq, Repr

inductive Op where
  | newList (as : List Adapter)
  | listAppend (l : Nat) (a : Adapter)
  | newDict (d : UDict)
  | newData (v : J)           -- a structured `data=` object of the caller
  | newParams (d : Dict)      -- a params object: dict with non-str values, or list / tuple of pairs
  | newClass (bases mro : List Nat) (pmap : Option UDict) (own : List (Str × Comps)) (bodies : Bodies)
  | mk (t : Target) (own : Own) (plain : Bool)
  | add (c : Nat) (a : Adapter)
  | newCaller (t : Target) (cls : Nat)
  | clone (k : Nat) (own : Own)
  | connOf (k : Nat)
  | cached (k : Nat) (pfx : Str)
  | call (k : Nat) (method : Str) (args : Args)   -- `k.method(...)`, a wrapper that sends one request
  | request (c : Nat) (args : Args)
  deriving DecidableEq, Repr

inductive Reply where
  | unit
  | ref (n : Nat)
  | sent (s : Sent)
  deriving DecidableEq, Repr

def stripSlash (a : Str) : Str := if endsWithSlash a then a.dropLast else a

def ownAdapters (H : Heap) : Own → Option (List Adapter)
  | .none => some []
  | .one a => some [a]
  | .list l => if l ∈ H.userLists then H.lists[l]? else none

/-- current content of `c.adapters` -/
def chainOf (H : Heap) (c : Nat) : Option (List Adapter) :=
  match H.conns[c]? with
  | some cn => H.lists[cn.alist]?
  | none => none

/-- `_HttpConnBase.__init__(adapters, conn_data)`; returns the reference of the new connection -/
def mkConn (H : Heap) (t : Target) (own : Own) (plain : Bool) : Option (Heap × Nat) :=
  match ownAdapters H own with
  | none => none
  | some as =>
    match t with
    | .conn p =>
      match H.conns[p]? with
      | none => none
      | some pc =>
        match H.lists[pc.alist]? with
        | none => none
        | some pl =>
          some ({ H with lists := H.lists ++ [as ++ pl],
                         conns := H.conns ++ [{ impl := pc.impl, alist := H.lists.length, plain }] },
                H.conns.length)
    | .addr a isStr sendIds =>
      some ({ H with impls := H.impls ++ [{ address := if isStr then stripSlash a else a,
                                             sendIds := if isStr then true else sendIds, ctr := 0 }],
                     lists := H.lists ++ [as],
                     conns := H.conns ++ [{ impl := H.impls.length, alist := H.lists.length, plain }] },
            H.conns.length)

def lookup {β} : List (Str × β) → Str → Option β
  | [], _ => none
  | (k', v) :: r, k => if k' = k then some v else lookup r k

def optDict (H : Heap) : Option Nat → Option (Option Dict)
  | none => some none
  | some r => match H.dicts[r]? with
    | some d => some (some d)
    | none => none

/-- `str(v)` of a value the caller put into a params object -/
def HVal.text : HVal → Option Str
  | .str s => some s
  | .int n => some (toString n).toList
  | .bool true => some "True".toList
  | .bool false => some "False".toList
  | .pyNone => some "None".toList
  | _ => Option.none

/-- the `params=` object of the caller as the list of `(key, str(value))` pairs `urlencode` walks
through — a dict, or a list / tuple of pairs in which a key may occur more than once: every pair is
kept, in order; `none` for an object that holds something else (not reachable for a caller) -/
def toUDict : Dict → Option UDict
  | [] => some []
  | (k, v) :: r =>
    match v.text, toUDict r with
    | some t, some u => some ((k, t) :: u)
    | _, _ => none

def optParams (H : Heap) : Option Nat → Option (Option UDict)
  | none => some none
  | some r => match H.dicts[r]? with
    | some d => (toUDict d).map some
    | none => none

/-- what `do_request` reads of the `data=` argument (a structured object is only read) -/
def optData (H : Heap) : DataArg → Option Body
  | .none => some .none
  | .bytes b => some (.bytes b)
  | .str s => some (.str s)
  | .obj r => (H.datas[r]?).map .json

/-- `headers.copy() if headers else {}`: the content of the new dict object -/
def copyHeaders : Option Dict → Dict
  | some d => d
  | none => []

def ofUDict (d : UDict) : Dict := d.map fun kv => (kv.1, HVal.str kv.2)

/-- what a request through `c` reads: the connection, its `conn_impl`, the content of `c.adapters` -/
def connView (H : Heap) (c : Nat) : Option (Conn × Impl × List Adapter) :=
  match H.conns[c]? with
  | none => none
  | some cn =>
    match H.impls[cn.impl]?, H.lists[cn.alist]? with
    | some impl, some as => some (cn, impl, as)
    | _, _ => none

/-- `adapter.process_req_args(req_args)` where `req_args.headers` is the dict object `w`: the adapter
reads and writes that object -/
def applyReqH (a : Adapter) (H : Heap) (w : Nat) (path : Str) : Heap × Except Err Str :=
  match H.dicts[w]? with
  | none => (H, .error .keyError)
  | some d =>
    match applyReq a { path, headers := d } with
    | .ok ra => ({ H with dicts := H.dicts.set w ra.headers }, .ok ra.path)
    | .error e => (H, .error e)

def applyAllH : List Adapter → Heap → Nat → Str → Heap × Except Err Str
  | [], H, _, path => (H, .ok path)
  | a :: as, H, w, path =>
    match applyReqH a H w path with
    | (H', .ok path') => applyAllH as H' w path'
    | (H', .error e) => (H', .error e)

/-- a request through connection `c` (any of `get/post/…` passes the method; `do_request` itself
accepts `None`). `RequestArguments.headers` is a new dict object (reference `H.dicts.length`) holding a
copy of the caller's headers; adapters and the id / content-type assignments write to that object. -/
def requestFlat (H : Heap) (c : Nat) (args : Args) : Heap × Except Err Sent :=
  match connView H c, optDict H args.headers, optParams H args.params, optData H args.data with
  | some (cn, impl, as), some hd, some pd, some body =>
    let w := H.dicts.length
    let H1 := { H with dicts := H.dicts ++ [copyHeaders hd] }
    match applyAllH as H1 w args.path with
    | (H2, .error e) => (H2, .error e)
    | (H2, .ok path) =>
      match H2.dicts[w]? with
      | none => (H2, .error .keyError)
      | some hs =>
        let ra : RA := { path, headers := hs }
        -- url, method and body are made from what the adapters left in `req_args`
        let s := assemble impl ra args.method (finalParams as pd) (finalBody as body)
          (respFold as (decodeResp args.raw args.resp))
        let H3 := { H2 with dicts := H2.dicts.set w (finalHeaders impl ra (finalBody as body)) }
        match s.genId with
        | some _ => ({ H3 with impls := H3.impls.set cn.impl { impl with ctr := impl.ctr + 1 } }, .ok s)
        | none => (H3, .ok s)
  | _, _, _, _ => (H, .error .keyError)

/-- the request a nesting adapter sends: `target.get("/nested")` -/
def nestedArgs : Args :=
  { path := "/nested".toList, method := some "GET".toList, params := none, data := .none, headers := none,
    resp := none, raw := false }

def hasNested (as : List Adapter) : Bool :=
  as.any fun a => match a with
    | .nested .. => true
    | _ => false

/-- one nesting adapter fires: a complete request through `target` on the same world. The model follows
one level of nesting (the target's chain has no nesting adapter — so by construction of the histories);
deeper nesting is answered with the explicit `outOfFuel`. -/
def fireNested (H : Heap) (t : Nat) (firstOnly : Bool) (id : Nat) : Heap × Option Str × Option Err :=
  -- result: the url of the nested request if it was handed to the opener, and the exception if one came out
  if firstOnly && H.fired.contains id then (H, none, none)
  else
    let H1 := if firstOnly then { H with fired := id :: H.fired } else H
    match connView H1 t with
    | some (_, _, tas) =>
      if hasNested tas then (H1, none, some .outOfFuel)
      else
        match requestFlat H1 t nestedArgs with
        | (H2, .ok s) =>
          match s.resp with
          | .ok _ => (H2, some s.url, none)
          | .error e => (H2, some s.url, some e)
        | (H2, .error e) => (H2, none, some e)
    | none => (H1, none, some .keyError)

def optList {α} : Option α → List α
  | some x => [x]
  | none => []

/-- the nesting adapters that fire in `process_req_args`, in chain order; the loop over the adapters
stops where an earlier adapter refuses the request (`pre` = the adapters before the current one) -/
def firePre (ra0 : RA) : Heap → (pre rest : List Adapter) → List Str → Heap × Except Err (List Str) × List Str
  | H, _, [], acc => (H, .ok acc, acc)
  | H, pre, a :: rest, acc =>
    match a with
    | .nested t firstOnly true id =>
      match applyAll pre ra0 with
      | .error _ => (H, .ok acc, acc)
      | .ok _ =>
        match fireNested H t firstOnly id with
        | (H1, u, none) => firePre ra0 H1 (pre ++ [a]) rest (acc ++ optList u)
        | (H1, u, some e) => (H1, .error e, acc ++ optList u)
    | _ => firePre ra0 H (pre ++ [a]) rest acc

/-- the nesting adapters that fire in `process_response`: the loop runs over the reversed chain and
stops at the first processor that raises -/
def firePost : Heap → (rev : List Adapter) → J → List Str → Heap × Except Err (List Str) × List Str
  | H, [], _, acc => (H, .ok acc, acc)
  | H, a :: rest, v, acc =>
    match a with
    | .nested t firstOnly false id =>
      match fireNested H t firstOnly id with
      | (H1, u, none) => firePost H1 rest v (acc ++ optList u)
      | (H1, u, some e) => (H1, .error e, acc ++ optList u)
    | _ =>
      match procResp a v with
      | .ok v' => firePost H rest v' acc
      | .error _ => (H, .ok acc, acc)

/-- a request through connection `c` whose chain may contain nesting adapters: their requests are
complete requests on the same world, threaded through; the outer request itself is `requestFlat` —
its adapter list is an argument of `do_request`, not state, so nothing the nested requests do can
change which adapters process the outer request and response. -/
def request (H : Heap) (c : Nat) (args : Args) : Heap × Except Err Sent :=
  match connView H c, optDict H args.headers with
  | some (_, _, as), some hd =>
    if !hasNested as then
      match requestFlat H c args with
      | (H1, .ok s) => ({ H1 with lastSent := 1 }, .ok s)
      | (H1, .error e) => ({ H1 with lastSent := 0 }, .error e)
    else
      match firePre { path := args.path, headers := copyHeaders hd } H [] as [] with
      | (H1, .error e, pre) => ({ H1 with lastSent := pre.length }, .error e)
      | (H1, .ok pre, _) =>
        match requestFlat H1 c args with
        | (H2, .error e) => ({ H2 with lastSent := pre.length }, .error e)
        | (H2, .ok s) =>
          match firePost H2 as.reverse (decodeResp args.raw args.resp) [] with
          | (H3, .ok post, _) =>
            ({ H3 with lastSent := pre.length + 1 + post.length }, .ok { s with nested := pre ++ post })
          | (H3, .error e, post) =>
            ({ H3 with lastSent := pre.length + 1 + post.length },
             .ok { s with nested := pre ++ post, resp := .error e })
  | _, _ =>
    match requestFlat H c args with
    | (H1, .ok s) => ({ H1 with lastSent := 1 }, .ok s)
    | (H1, .error e) => ({ H1 with lastSent := 0 }, .error e)

/-- `MCallerHttp.get_conn()` called from a method declared with `components` -/
def getConn (H : Heap) (k : Nat) (comps : Option (List Str)) : Heap × Except Err Nat :=
  match H.callers[k]? with
  | none => (H, .error .keyError)
  | some cl =>
    match comps with
    | none => (H, .ok cl.conn)
    | some cs =>
      match cs.filter (fun c => cl.pmap.any (·.1 = c)) with
      | [c] =>
        match lookup cl.pmap c with
        | none => (H, .error .keyError)
        | some pfx =>
          match lookup cl.cache pfx with
          | some n => (H, .ok n)
          | none =>
            if pfx = [] then
              ({ H with callers := H.callers.set k { cl with cache := cl.cache ++ [(pfx, cl.conn)] } },
               .ok cl.conn)
            else
              match mkConn H (.conn cl.conn) (.one (.pfx pfx)) true with
              | none => (H, .error .keyError)
              | some (H', n) =>
                ({ H' with callers := H'.callers.set k { cl with cache := cl.cache ++ [(pfx, n)] } }, .ok n)
      | _ => (H, .error .assertion)

/-- `d[k] = v` on an association list (dict semantics) -/
def aset {β} : List (Str × β) → Str → β → List (Str × β)
  | [], k, v => [(k, v)]
  | (k', v') :: r, k, v => if k' = k then (k', v) :: r else (k', v') :: aset r k v

def asetAll {β} (acc : List (Str × β)) (l : List (Str × β)) : List (Str × β) :=
  l.foldl (fun a kv => aset a kv.1 kv.2) acc

/-- `_Meta_MethodsCaller.__new__`: `{name: meta for parent in reversed(supers) for name, meta in
parent._MCALLERS_METAS.items()}`, then the wrappers of the class body -/
def mergeMetas (baseMetas : List (List (Str × Comps))) (own : List (Str × Comps)) : List (Str × Comps) :=
  asetAll (baseMetas.reverse.foldl asetAll []) own

/-- class attribute lookup along the MRO: the first class that defines `_HTTP_PREFIX_MAP`
(`MCallerHttp` itself has `{}`) -/
def classPmap (cs : List ClassDef) : List Nat → UDict
  | [] => []
  | c :: r =>
    match cs[c]? with
    | some cd => match cd.pmap with
      | some p => p
      | none => classPmap cs r
    | none => classPmap cs r

/-- method lookup along the MRO: the first class whose body defines the wrapper -/
def bodyClass (cs : List ClassDef) (m : Str) : List Nat → Option Nat
  | [] => none
  | c :: r =>
    match cs[c]? with
    | some cd => if cd.own.any (·.1 = m) then some c else bodyClass cs m r
    | none => bodyClass cs m r

/-! ### Which wrapper is "the calling wrapper": Python's frame stack when `get_conn()` runs

`get_mcaller_meta` (mcaller.py:83-88) walks the frames from its caller outwards and returns the entry of
`_MCALLERS_METAS` for the first frame whose function *name* is a key of the table. The model keeps the
stack as the list of those names, innermost first. What is on the stack depends on how the wrapper
bodies are written:

* an ordinary wrapper runs inside the logging decorator: `m :: decorated_method_body :: <stack of the call>`;
* a wrapper written as a generator / coroutine function: the decorator returns the object at once; the body
  runs when the object is driven: `m :: <stack of whoever drives it>` - no decorator frame, and the frames of
  the wrapper that called it are there only if that wrapper drives the object itself;
* a body may reach `get_conn()` through a helper function (its frame lies above the wrapper's). -/

/-- frame names of functions that are not wrappers -/
def decoFrame : Str := "decorated_method_body".toList
def driveFrame : Str := "_drive".toList      -- the function that drives a generator / coroutine object to its value
def getConnFrame : Str := "get_conn".toList

/-- `get_mcaller_meta`: the entry of the first frame (innermost first) whose name is a key of the table -/
def frameMeta (metas : List (Str × Comps)) : List Str → Option Comps
  | [] => none
  | f :: r =>
    match lookup metas f with
    | some c => some c
    | none => frameMeta metas r

/-- what evaluating a wrapper body (or a wrapper call) has come to -/
inductive Outcome where
  /-- the request has been made: the stack when `get_conn()` ran, the wrapper whose body made it and the
  class of that body -/
  | made (stack : List Str) (m : Str) (b : Nat)
  /-- an object of the generator / coroutine wrapper `m` whose body has not run yet -/
  | pending (m : Str)
  deriving DecidableEq, Repr

/-- is the body Python's MRO selects for `m` a generator / coroutine function -/
def isDeferred (cs : List ClassDef) (mro : List Nat) (m : Str) : Except Err Bool :=
  match bodyClass cs m mro with
  | none => .error .attributeError
  | some b =>
    match cs[b]? with
    | none => .error .keyError
    | some bd => .ok (bd.bodies.deferred.contains m)

/-- `self.<m>(…)` evaluated in a frame whose stack is `caller`; with `drive` the same frame then passes the
result to `_drive(…)`. `body m ctx drive` = what running the body of `m` on top of the frames `ctx` comes to
(with `drive`: and driving whatever pending object it returns, from the same place). -/
def callWith (body : Str → List Str → Bool → Except Err Outcome) (cs : List ClassDef) (mro : List Nat)
    (m : Str) (caller : List Str) (drive : Bool) : Except Err Outcome :=
  match isDeferred cs mro m with
  | .error e => .error e
  | .ok false =>
    match body m (decoFrame :: caller) false with
    | .ok (.pending m') => if drive then body m' (driveFrame :: caller) true else .ok (.pending m')
    | r => r
  | .ok true => if drive then body m (driveFrame :: caller) true else .ok (.pending m)

/-- running the body that Python's MRO selects for wrapper `m` on top of the frames `ctx`; with `drive`
the frames `ctx` belong to `_drive`, which goes on driving while the value is a pending object. -/
def runBody (cs : List ClassDef) (mro : List Nat) : Nat → Str → List Str → Bool → Except Err Outcome
  | 0, _, _, _ => .error .outOfFuel
  | fuel + 1, m, ctx, drive =>
    match bodyClass cs m mro with
    | none => .error .attributeError
    | some b =>
      match cs[b]? with
      | none => .error .keyError
      | some bd =>
        let r : Except Err Outcome :=
          match lookup bd.bodies.delegates m with
          | none =>
            match lookup bd.bodies.reach m with
            | none => .ok (.made (getConnFrame :: m :: ctx) m b)
            | some h => .ok (.made (getConnFrame :: h :: m :: ctx) m b)
          | some (inner, drives) => callWith (runBody cs mro fuel) cs mro inner (m :: ctx) drives
        match r with
        | .ok (.pending m') => if drive then runBody cs mro fuel m' ctx true else r
        | r => r

/-- `k.m(…)` called by plain code (no frame named like a wrapper), which drives the result to its value -/
def callTop (cs : List ClassDef) (mro : List Nat) (m : Str) : Except Err Outcome :=
  callWith (runBody cs mro 32) cs mro m [] true

/-- the harness's wrapper bodies send to `path + "~" + <number of the class whose body runs>` -/
def bodySuffix (c : Nat) : Str := '~' :: (toString c).toList

/-- what happens inside a wrapper declared with `comps`: `self.get_conn().<verb>(path, …)` -/
def doCall (H : Heap) (k : Nat) (comps : Comps) (args : Args) : Heap × Except Err Reply :=
  match getConn H k comps with
  | (H', .ok c) =>
    match request H' c args with
    | (H'', .ok s) => (H'', .ok (.sent s))
    | (H'', .error e) => (H'', .error e)
  | (H', .error e) => (H', .error e)

/-- one operation of a history; the heap is returned also when the operation raises -/
def step (H : Heap) : Op → Heap × Except Err Reply
  | .newList as =>
    ({ H with lists := H.lists ++ [as], userLists := H.userLists ++ [H.lists.length] },
     .ok (.ref H.lists.length))
  | .listAppend l a =>
    if l ∈ H.userLists then
      match H.lists[l]? with
      | some as => ({ H with lists := H.lists.set l (as ++ [a]) }, .ok .unit)
      | none => (H, .error .keyError)
    else (H, .error .keyError)
  | .newDict d =>
    ({ H with dicts := H.dicts ++ [ofUDict d], userDicts := H.userDicts ++ [H.dicts.length] },
     .ok (.ref H.dicts.length))
  | .mk t own plain =>
    match mkConn H t own plain with
    | some (H', n) => (H', .ok (.ref n))
    | none => (H, .error .keyError)
  | .add c a =>
    match H.conns[c]? with
    | none => (H, .error .keyError)
    | some cn =>
      match H.lists[cn.alist]? with
      | some as => ({ H with lists := H.lists.set cn.alist (as ++ [a]) }, .ok .unit)
      | none => (H, .error .keyError)
  | .newData v => ({ H with datas := H.datas ++ [v] }, .ok (.ref H.datas.length))
  | .newParams d =>
    if d.all (fun kv => kv.2.text.isSome) then
      ({ H with dicts := H.dicts ++ [d], userDicts := H.userDicts ++ [H.dicts.length] }, .ok (.ref H.dicts.length))
    else (H, .error .typeError)
  | .newClass bases mro pmap own bodies =>
    match bases.mapM (fun b => H.classes[b]?) with
    | none => (H, .error .keyError)
    | some bs =>
      ({ H with classes := H.classes ++
          [{ bases, mro, pmap, own, metas := mergeMetas (bs.map (·.metas)) own, bodies }] },
       .ok (.ref H.classes.length))
  | .newCaller t cls =>
    -- `MCallerHttp.__init__`: an `HttpConn` is taken as it is, anything else goes to `HttpConn(address)`
    match H.classes[cls]? with
    | none => (H, .error .keyError)
    | some cd =>
    let pmap := classPmap H.classes cd.mro
    match t with
    | .conn p =>
      match H.conns[p]? with
      | none => (H, .error .keyError)
      | some pc =>
        if pc.plain then
          ({ H with callers := H.callers ++ [{ conn := p, pmap, cache := [], cls }] }, .ok (.ref H.callers.length))
        else
          match mkConn H t .none true with
          | some (H', n) =>
            ({ H' with callers := H'.callers ++ [{ conn := n, pmap, cache := [], cls }] }, .ok (.ref H'.callers.length))
          | none => (H, .error .keyError)
    | .addr .. =>
      match mkConn H t .none true with
      | some (H', n) =>
        ({ H' with callers := H'.callers ++ [{ conn := n, pmap, cache := [], cls }] }, .ok (.ref H'.callers.length))
      | none => (H, .error .keyError)
  | .clone k own =>
    match H.callers[k]? with
    | none => (H, .error .keyError)
    | some cl =>
      match mkConn H (.conn cl.conn) own true with
      | some (H', n) =>
        ({ H' with callers := H'.callers ++ [{ conn := n, pmap := cl.pmap, cache := [], cls := cl.cls }] },
         .ok (.ref H'.callers.length))
      | none => (H, .error .keyError)
  | .connOf k =>
    match H.callers[k]? with
    | some cl => (H, .ok (.ref cl.conn))
    | none => (H, .error .keyError)
  | .cached k pfx =>
    match H.callers[k]? with
    | some cl =>
      match lookup cl.cache pfx with
      | some n => (H, .ok (.ref n))
      | none => (H, .error .keyError)      -- Python's KeyError of `_mc_conns_by_prefix[prefix]`
    | none => (H, .error .keyError)
  | .call k m args =>
    -- the bodies that run are the ones Python's MRO selects; `get_conn()` asks `get_mcaller_meta()`, which
    -- takes the entry of `self._MCALLERS_METAS` for the first frame of the stack named like a wrapper
    match H.callers[k]? with
    | none => (H, .error .keyError)
    | some cl =>
      match H.classes[cl.cls]? with
      | none => (H, .error .keyError)
      | some cd =>
        match callTop H.classes cd.mro m with
        | .error e => (H, .error e)
        | .ok (.pending _) => (H, .error .assertion)     -- never: the result is driven (`callTop_not_pending`)
        | .ok (.made stack _ b) =>
          match frameMeta cd.metas stack with
          | some comps => doCall H k comps { args with path := args.path ++ bodySuffix b }
          | none => (H, .error .valueError)              -- "No 'methods caller' metadata found"
  | .request c args =>
    match request H c args with
    | (H', .ok s) => (H', .ok (.sent s))
    | (H', .error e) => (H', .error e)

def run (H : Heap) : List Op → Heap
  | [] => H
  | op :: ops => run (step H op).1 ops

end HttpConn
