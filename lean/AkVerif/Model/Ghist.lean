import AkVerif.Model.Common
import AkVerif.Gen.Ghist
/-!
Model of `/repo/ak/ghist.py` — `RGraph` (C06, C07).  Core Lean only.

The model follows the code, not a specification of it:

* `branchKey` / `cmpKey` / `ltKey`   — `BranchName._mk_sort_items`, `BranchName.cmp`, `Comparable.__lt__`
* `releaseBranches` / `sortBranches` — `ProjectRepo.iter_release_branches` + `branches_data.sort(key=…)` (stable)
* `visit`                            — the DFS of `RGraph._read_branch` (git parents **last first**, post-order ids,
                                       repository caches `done_commits` / `visited_commits` / `selected_commits`,
                                       "second look" at a finished commit)
* `finish`                           — `_mk_rcommits` + the registration block after it (caches, `rbuilds_ancestors`,
                                       `bn_map`)
* `bp` / `prsOf` / `maximal` / `findNew` — `_find_new_rcommits_in_build` (DFS over report commits, stopping at
                                       current-branch builds and at commits whose build parents are known; build
                                       parents kept maximal; the "reuse map object" step, which decides the dict order)
* `endBranch`                        — the "not merged" pseudo build (repaired semantics of commit 8729393), pending
                                       component bumps, `prev_branches_builds.update`
* `readBranches` / `rgraph`          — the loop of `RGraph.__init__` with `min_rbuild_timestamp` (`minTs`) and the
                                       obsolete-branch test (`obsolete`), reversal and dropping of empty branches.

Python `dict`s are association lists; where the iteration order of a dict is observable (parent builds of a
build, commits of a build) the list keeps the insertion order of the code.  Commit ids are positions in
`Hist.commits`, parents have smaller ids (topological order); report-commit ids (`iid`) are positions in `Repo.rcs`
(`_rcommits_counter`).  Everything that depends on component repositories (C07) enters through `Plug`; C06 runs the
model with the empty plug (`Plug.none`), C07 with the plug of `Model/GhistComp.lean` — the definitions below are
shared, so every C06 theorem proved for an arbitrary plug also holds for multi-repository reports.

Commit times are part of the model (`Commit.time`): a branch whose head is more than `_OBSOLETE_BRANCH_CUTOFF_PERIOD`
older than every build found so far is dropped, and the set of relevant components narrows down the DFS
(`Plug.relStep`, handed from a commit to its parents).  The properties quantify over histories whose times lie inside
the cut-off windows: `Hist.InWindow` (no branch is dropped) and `CompWindow` of `Model/GhistComp.lean` (every component
with reported builds stays relevant); both are stated with the periods the translator reads from the source.  Tag
names are turned into build numbers by `Model/GhistTags.lean`.
-/
namespace Ghist
open Ak

/-! ## build numbers -/

/-- `BuildNumData` with all four numbers known (`major, minor, patch, build`) -/
structure BN where
  major : Nat
  minor : Nat
  patch : Nat
  build : Nat
  deriving DecidableEq, Repr, Inhabited

/-- `BuildNumData.cmp(...) < 0` -/
def BN.lt (a b : BN) : Bool :=
  if a.major ≠ b.major then a.major < b.major
  else if a.minor ≠ b.minor then a.minor < b.minor
  else if a.patch ≠ b.patch then a.patch < b.patch
  else a.build < b.build

def BN.ofTuple (t : Nat × Nat × Nat × Nat) : BN := ⟨t.1, t.2.1, t.2.2.1, t.2.2.2⟩

/-- `BuildNumData.mk_fake_not_built()` / `mk_fake_not_merged()` (numbers generated from the source) -/
def fakeNB : BN := BN.ofTuple Gen.Ghist.fakeNB
def fakeNM : BN := BN.ofTuple Gen.Ghist.fakeNM

/-- stable insertion sort (Python's `list.sort` with a consistent `__lt__`) -/
def insertBy {α} (lt : α → α → Bool) (x : α) : List α → List α
  | [] => [x]
  | y :: ys => if lt y x then y :: insertBy lt x ys else x :: y :: ys

def sortBy {α} (lt : α → α → Bool) : List α → List α
  | [] => []
  | x :: xs => insertBy lt x (sortBy lt xs)

/-! ## dictionaries -/

/-- `d[k] = v` : replace in place, new keys go last -/
def dset {κ ν} [BEq κ] (k : κ) (v : ν) : List (κ × ν) → List (κ × ν)
  | [] => [(k, v)]
  | (k', v') :: r => if k' == k then (k', v) :: r else (k', v') :: dset k v r

/-- append the elements of `l` that are not present yet (dict/set `update`, `if x not in acc: acc.append(x)`) -/
def addNew (acc : List Nat) (l : List Nat) : List Nat :=
  l.foldl (fun a r => if a.contains r then a else a ++ [r]) acc

/-! ## branch names -/

inductive Item where
  | int (n : Nat)
  | str (s : List Char)
  deriving DecidableEq, Repr

/-- Python's `str <` : lexicographic by code point -/
def strLt : List Char → List Char → Bool
  | [], [] => false
  | [], _ :: _ => true
  | _ :: _, [] => false
  | a :: as, b :: bs => if a.toNat < b.toNat then true else if b.toNat < a.toNat then false else strLt as bs

/-- `_cmp_sort_items` -/
def cmpItem : Item → Item → Int
  | .int a, .int b => (a : Int) - (b : Int)
  | .int _, .str _ => -1
  | .str _, .int _ => 1
  | .str a, .str b => if strLt b a then 1 else if strLt a b then -1 else 0

/-- `BranchName.cmp` : first differing pair of the zipped items, then the lengths -/
def cmpKey : List Item → List Item → Int
  | x :: xs, y :: ys => if cmpItem x y ≠ 0 then cmpItem x y else cmpKey xs ys
  | xs, ys => (xs.length : Int) - (ys.length : Int)

def ltKey (a b : List Item) : Bool := cmpKey a b < 0

/-- the characters replaced by a blank (generated from the source) and the blank itself -/
def isSep (c : Char) : Bool := Gen.Ghist.seps.contains c || c = ' '

/-- `s.replace('/', ' ')….split()` : maximal runs of non-separator characters -/
def splitItems : List Char → List Char → List (List Char)
  | [], cur => if cur.isEmpty then [] else [cur.reverse]
  | c :: cs, cur =>
    if isSep c then (if cur.isEmpty then splitItems cs [] else cur.reverse :: splitItems cs [])
    else splitItems cs (c :: cur)

def digitsVal : List Char → Nat → Nat
  | [], acc => acc
  | c :: cs, acc => digitsVal cs (acc * 10 + (c.toNat - 48))

/-- `int(chunk)` succeeds (names are ASCII: a non-empty run of decimal digits) -/
def isNum (s : List Char) : Bool := !s.isEmpty && s.all (fun c => 48 ≤ c.toNat && c.toNat ≤ 57)

def mkItem (s : List Char) : Item := if isNum s then .int (digitsVal s 0) else .str s

/-- `BranchName._mk_sort_items` -/
def branchKey (s : List Char) : List Item := (splitItems s []).map mkItem

def sentinel : List Char := Gen.Ghist.sentinel

structure Branch where
  name : List Char          -- "master" or the ref name without the remote prefix
  key : List Item
  head : Nat
  deriving Repr

/-- `ProjectRepo.iter_release_branches` for one ref of the remote -/
def releaseBranch (remote : List Char) (ref : List Char × Nat) : List Branch :=
  (if Gen.Ghist.masters.any (fun m => ref.1 = remote ++ m) then
    [{ name := "master".toList, key := Item.str sentinel :: branchKey ref.1, head := ref.2 }] else []) ++
  (if (remote ++ Gen.Ghist.release).isPrefixOf ref.1 then
    [{ name := ref.1.drop (remote.length + 1), key := branchKey ref.1, head := ref.2 }] else [])

def releaseBranches (remote : List Char) (refs : List (List Char × Nat)) : List Branch :=
  refs.flatMap (releaseBranch remote)

def sortBranches (bs : List Branch) : List Branch := sortBy (fun a b => ltKey a.key b.key) bs

/-! ## history, report graph -/

structure Commit (π : Type) where
  parents : List Nat
  tags : List BN            -- numbers of the build tags on the commit (any order)
  isMatch : Bool            -- `search_text in commit.message`
  pins : π                  -- component versions saved in the commit (C07)
  time : Nat                -- `committed_date` (seconds)

structure Hist (π : Type) where
  commits : List (Commit π)
  remote : List Char
  refs : List (List Char × Nat)   -- refs of the remote in the order the remote lists them: (name, head commit)

/-- `RCommit` -/
structure RC where
  commit : Nat
  parents : List Nat        -- iids, in `rc_parents` order (may repeat an iid)
  explicit : Bool
  bns : List BN
  time : Nat                -- `rcommit.commit.committed_date`
  deriving Repr

/-- `RBuild` -/
structure RB (β : Type) where
  iid : Nat
  rcommit : Option Nat      -- iid of the build's `RCommit` (`= iid`), `none` for the "not merged" pseudo build
  parents : List Nat        -- `parent_rbuilds` keys in dict order
  rcommits : List Nat       -- `rcommits` keys in dict order
  bumps : β
  bn : BN
  deriving Repr

/-- what component repositories contribute to the analysis of one repository (C07) -/
structure Plug (π β : Type) where
  relInit : List Nat                            -- the components with reported builds (keys of `components_versions_maps`)
  relStep : Nat → List Nat → List Nat           -- `_get_relevant_cmpnts_names` : commit time, candidates ↦ still relevant
  mkBumps : List Nat → π → List β → Except Err β -- `_mk_bumps_info` for the relevant components, from the pins and the
                                                -- bumps of the parent builds
  nonTrivial : β → Bool                         -- `any(not bump.is_trivial())`
  pending : β → Except Err β                    -- pending bumps of the pseudo build, from the latest build's bumps
  noBumps : β
  isEmpty : β → Bool

/-- single repository without components -/
def Plug.none {π} : Plug π Unit :=
  { relInit := [], relStep := fun _ r => r, mkBumps := fun _ _ _ => .ok (), nonTrivial := fun _ => false,
    pending := fun _ => .ok (), noBumps := (), isEmpty := fun _ => true }

/-- `_RepoParserCache` + the graph under construction -/
structure Repo (β : Type) where
  done : List Nat                       -- done_commits
  visited : List (Nat × List Nat)       -- visited_commits
  selected : List (Nat × Nat)           -- selected_commits : commit ↦ iid
  rcs : List RC                         -- self.rcommits, position = iid
  builds : List (RB β)                  -- self.brcommits (normal builds only), creation order
  prevBuilds : List Nat                 -- prev_branches_builds (keys)
  fakeCounter : Nat                     -- _brcommits_counter

/-- `_RepoParserPerBranchCache` + locals of `_read_branch` -/
structure Br where
  bparents : List (Nat × List Nat)      -- rcommits_bparents
  anc : List (Nat × List Nat)           -- rbuilds_ancestors
  cur : List Nat                        -- cur_branch_rbuilds (normal builds), creation order
  bnMap : List (BN × Nat)               -- bn_map of the branch

structure St (β : Type) where
  rp : Repo β
  br : Br

def Repo.empty {β} : Repo β :=
  { done := [], visited := [], selected := [], rcs := [], builds := [], prevBuilds := [],
    fakeCounter := Gen.Ghist.fakeStart }

def Br.empty : Br := { bparents := [], anc := [], cur := [], bnMap := [] }

def Repo.build? {β} (rp : Repo β) (i : Nat) : Option (RB β) := rp.builds.find? (fun b => b.iid == i)

/-- `_is_cur_branch_build_iid` -/
def isCurBuild {β} (rp : Repo β) (i : Nat) : Bool :=
  rp.builds.any (fun b => b.iid == i) && !rp.prevBuilds.contains i

/-! ## `_find_new_rcommits_in_build` -/

/-- `any(iid in rbuilds_ancestors[bc] for bc in keys)` (short-circuit; a missing key is a `KeyError`) -/
def isExtra (anc : List (Nat × List Nat)) : List Nat → Nat → Except Err Bool
  | [], _ => .ok false
  | j :: js, i =>
    match anc.lookup j with
    | none => .error .keyError
    | some a => if a.contains i then .ok true else isExtra anc js i

def extras (anc : List (Nat × List Nat)) (s : List Nat) : List Nat → Except Err (List Nat)
  | [] => .ok []
  | i :: is =>
    match isExtra anc s i with
    | .error e => .error e
    | .ok b =>
      match extras anc s is with
      | .error e => .error e
      | .ok r => .ok (if b then i :: r else r)

/-- the `while True: extra_bcs = …` loop -/
def maximal (anc : List (Nat × List Nat)) : Nat → List Nat → Except Err (List Nat)
  | 0, _ => .error .outOfFuel
  | fuel + 1, s =>
    match extras anc s s with
    | .error e => .error e
    | .ok [] => .ok s
    | .ok (x :: ex) => maximal anc fuel (s.filter fun i => !(x :: ex).contains i)

/-- `_iter_parent_rbuilds` collected into a dict (first occurrence decides the position) -/
def rawParents {β} (rp : Repo β) (bpar : List (Nat × List Nat)) : List Nat → List Nat → Except Err (List Nat)
  | [], acc => .ok acc
  | p :: ps, acc =>
    if isCurBuild rp p then rawParents rp bpar ps (addNew acc [p])
    else match bpar.lookup p with
      | none => .error .assertion
      | some l => rawParents rp bpar ps (addNew acc l)

def sameSet (a b : List Nat) : Bool := a.length == b.length && a.all b.contains

/-- "reuse map object if possible": the dict of the first parent with equal content is taken -/
def reuse (bpar : List (Nat × List Nat)) (prs : List Nat) : List Nat → List Nat
  | [] => prs
  | p :: ps =>
    match bpar.lookup p with
    | some l => if sameSet prs l then l else reuse bpar prs ps
    | none => reuse bpar prs ps

/-- parent builds of a report commit with (report) parents `ps` -/
def prsOf {β} (rp : Repo β) (anc : List (Nat × List Nat)) (bpar : List (Nat × List Nat)) (ps : List Nat) :
    Except Err (List Nat) :=
  match rawParents rp bpar ps [] with
  | .error e => .error e
  | .ok raw =>
    match maximal anc (raw.length + 1) raw with
    | .error e => .error e
    | .ok m => .ok (reuse bpar m ps)

structure FS where
  bparents : List (Nat × List Nat)
  new : List Nat

/-- the DFS over report commits: fills `rcommits_bparents`, collects the explicit commits met -/
def bp {β} (rp : Repo β) (anc : List (Nat × List Nat)) : Nat → FS → Nat → Except Err FS
  | 0, _, _ => .error .outOfFuel
  | fuel + 1, fs, r =>
    if isCurBuild rp r || (fs.bparents.lookup r).isSome then .ok fs
    else
      match rp.rcs[r]? with
      | none => .error .keyError
      | some rc =>
        match rc.parents.reverse.foldlM (bp rp anc fuel) fs with
        | .error e => .error e
        | .ok fs1 =>
          match prsOf rp anc fs1.bparents rc.parents with
          | .error e => .error e
          | .ok prs =>
            .ok { bparents := (r, prs) :: fs1.bparents,
                  new := if rc.explicit then fs1.new ++ [r] else fs1.new }

/-- returns the new `rcommits_bparents`, the new explicit report commits and the parent builds -/
def findNew {β} (rp : Repo β) (br : Br) (heads : List Nat) :
    Except Err (List (Nat × List Nat) × List Nat × List Nat) :=
  match heads.reverse.foldlM (bp rp br.anc rp.rcs.length) ⟨br.bparents, []⟩ with
  | .error e => .error e
  | .ok fs =>
    match prsOf rp br.anc fs.bparents heads with
    | .error e => .error e
    | .ok pb => .ok (fs.bparents, fs.new, pb)

/-! ## `_read_branch` : the DFS over git commits -/

inductive Cls where
  | done
  | visited (fr : List Nat)
  | selected (i : Nat)

/-- the three cache tests at the top of the DFS loop -/
def classify {β} (rp : Repo β) (c : Nat) : Option Cls :=
  if rp.done.contains c then some .done
  else match rp.visited.lookup c with
    | some fr => some (.visited fr)
    | none =>
      match rp.selected.lookup c with
      | some i => some (.selected i)
      | none => none

/-- what the child's `rc_parents` becomes.  A selected commit is appended unconditionally: the code tests
`comm_hex not in rc_parents` — a string against a list of `RCommit`s — which is always true. -/
def addCls (acc : List Nat) : Cls → List Nat
  | .done => acc
  | .visited fr => addNew acc fr
  | .selected i => acc ++ [i]

/-- the bumps of the parent builds, in `parent_rbuilds` order -/
def buildsOf {β} (rp : Repo β) : List Nat → Option (List (RB β))
  | [] => some []
  | i :: is =>
    match rp.build? i, buildsOf rp is with
    | some b, some r => some (b :: r)
    | _, _ => none

/-- ancestors of a new build: `for parent in parents: d[parent] = …; d.update(ancestors[parent])` -/
def newAncestors (anc : List (Nat × List Nat)) : List Nat → List Nat → Except Err (List Nat)
  | [], acc => .ok acc
  | p :: ps, acc =>
    match anc.lookup p with
    | none => .error .keyError
    | some a => newAncestors anc ps (addNew (addNew acc [p]) a)

def setAll (bns : List BN) (i : Nat) (m : List (BN × Nat)) : List (BN × Nat) :=
  bns.foldl (fun m bn => dset bn i m) m

/-- `done_commits.add` -/
def Repo.addDone {β} (rp : Repo β) (c : Nat) : Repo β := { rp with done := c :: rp.done }

/-- `visited_commits[c] = rc_parents` -/
def Repo.addVisited {β} (rp : Repo β) (c : Nat) (fr : List Nat) : Repo β :=
  { rp with visited := (c, fr) :: rp.visited }

/-- a commit that is not selected: `done` when it has no report ancestors, `visited` otherwise -/
def Repo.addPlain {β} (rp : Repo β) (c : Nat) (fr : List Nat) : Repo β :=
  if fr.isEmpty then rp.addDone c else rp.addVisited c fr

/-- a new `RCommit` (its iid is the counter) registered in `selected_commits` -/
def Repo.addRC {β} (rp : Repo β) (rc : RC) : Repo β :=
  { rp with selected := (rc.commit, rp.rcs.length) :: rp.selected, rcs := rp.rcs ++ [rc] }

/-- `buildnums` of an eligible commit: the sorted tag numbers, the fake "not built" number for an untagged head -/
def buildNums {π} (cm : Commit π) (isHead : Bool) : List BN :=
  let bns := sortBy BN.lt cm.tags
  if isHead && bns.isEmpty then [fakeNB] else bns

/-- the commit becomes an `RCommit` and an `RBuild` -/
def St.addBuild {β} (st : St β) (rc : RC) (bn : BN) (bpar : List (Nat × List Nat)) (new pb : List Nat)
    (bumps : β) (na : List Nat) : St β :=
  let iid := st.rp.rcs.length
  { rp := { st.rp.addRC rc with
            builds := st.rp.builds ++ [{ iid := iid, rcommit := some iid, parents := pb, rcommits := new ++ [iid],
                                         bumps := bumps, bn := bn }] },
    br := { bparents := bpar, anc := (iid, na) :: st.br.anc, cur := st.br.cur ++ [iid],
            bnMap := setAll rc.bns iid st.br.bnMap } }

/-- an eligible commit that is not reported: only the caches and `bn_map` change -/
def St.skipBuild {β} (st : St β) (c : Nat) (fr : List Nat) (bns : List BN) (bpar : List (Nat × List Nat))
    (pb : List Nat) : St β :=
  { rp := st.rp.addPlain c fr,
    br := { st.br with bparents := bpar, bnMap := pb.foldl (fun m rb => setAll bns rb m) st.br.bnMap } }

/-- `_mk_rcommits` and the registration of its results; `rel` = `accumdat.relevant_cmpnts` of the commit -/
def finish {π β} (pl : Plug π β) (head : Nat) (rel : List Nat) (st : St β) (c : Nat) (cm : Commit π)
    (frontier : List Nat) : Except Err (St β) :=
  if !(cm.isMatch || !rel.isEmpty || !frontier.isEmpty) then
    .ok { st with rp := st.rp.addDone c }
  else if !cm.tags.isEmpty || c == head then
    match findNew st.rp st.br frontier with
    | .error e => .error e
    | .ok (bpar, new, pb) =>
      let bns := buildNums cm (c == head)
      match buildsOf st.rp pb with
      | none => .error .keyError
      | some pbs =>
        match pl.mkBumps rel cm.pins (pbs.map (·.bumps)) with
        | .error e => .error e
        | .ok bumps =>
          if cm.isMatch || !new.isEmpty || pl.nonTrivial bumps || decide (1 < pb.length) then
            match bns.head?, newAncestors st.br.anc pb [] with
            | none, _ => .error .typeError
            | _, .error e => .error e
            | some bn, .ok na =>
              .ok (st.addBuild { commit := c, parents := frontier, explicit := cm.isMatch, bns := bns, time := cm.time }
                    bn bpar new pb bumps na)
          else
            .ok (st.skipBuild c frontier bns bpar pb)
  else if cm.isMatch then
    .ok { st with rp := st.rp.addRC { commit := c, parents := frontier, explicit := true, bns := [], time := cm.time } }
  else
    .ok { st with rp := st.rp.addPlain c frontier }

/-- one step of the DFS loop for the commit `c` below a commit whose `rc_parents` so far is `acc` and whose relevant
components are `rel` (for the head: the candidates computed from the head's time) -/
def visit {π β} (h : Hist π) (pl : Plug π β) (head : Nat) :
    Nat → List Nat → St β × List Nat → Nat → Except Err (St β × List Nat)
  | 0, _, _, _ => .error .outOfFuel
  | fuel + 1, rel, (st, acc), c =>
    match classify st.rp c with
    | some cl => .ok (st, addCls acc cl)
    | none =>
      match h.commits[c]? with
      | none => .error .keyError
      | some cm =>
        match cm.parents.reverse.foldlM (visit h pl head fuel (pl.relStep cm.time rel)) (st, []) with
        | .error e => .error e
        | .ok (st1, frontier) =>
          match finish pl head (pl.relStep cm.time rel) st1 c cm frontier with
          | .error e => .error e
          | .ok st2 =>
            match classify st2.rp c with
            | some cl => .ok (st2, addCls acc cl)
            | none => .error .assertion

/-! ## end of `_read_branch` -/

/-- report commits reachable from the heads (`reachable_iids`) -/
def reach (rcs : List RC) : Nat → List Nat → Nat → Except Err (List Nat)
  | 0, _, _ => .error .outOfFuel
  | fuel + 1, seen, r =>
    if seen.contains r then .ok seen
    else match rcs[r]? with
      | none => .error .keyError
      | some rc => rc.parents.foldlM (reach rcs fuel) (r :: seen)

/-- iids of the explicit report commits that are not in `seen`, in `self.rcommits` order -/
def notMerged (seen : List Nat) : Nat → List RC → List Nat
  | _, [] => []
  | i, rc :: r => (if rc.explicit && !seen.contains i then [i] else []) ++ notMerged seen (i + 1) r

def maxOf : List Nat → Option Nat
  | [] => none
  | x :: xs => match maxOf xs with
    | none => some x
    | some m => some (if m < x then x else m)

/-- `RBranch` -/
structure RBranch (β : Type) where
  name : List Char
  rheads : List Nat
  rbuilds : List (RB β)      -- normal builds in creation order, then the pseudo build if any
  bnMap : List (BN × Nat)

def endBranch {π β} (pl : Plug π β) (first : Bool) (b : Branch) (st : St β) (rheads : List Nat) :
    Except Err (Repo β × RBranch β) :=
  match rheads.foldlM (reach st.rp.rcs st.rp.rcs.length) [] with
  | .error e => .error e
  | .ok seen =>
    let nm := if first then [] else notMerged seen 0 st.rp.rcs
    match buildsOf st.rp st.br.cur with
    | none => .error .keyError
    | some curBuilds =>
      let pend? : Except Err β :=
        match (maxOf st.br.cur).bind st.rp.build? with
        | none => .ok pl.noBumps
        | some lb => pl.pending lb.bumps
      match pend? with
      | .error e => .error e
      | .ok pend =>
        let rp1 := { st.rp with prevBuilds := st.rp.prevBuilds ++ st.br.anc.map (·.1) }
        if !nm.isEmpty || !pl.isEmpty pend then
          let fake : RB β := { iid := st.rp.fakeCounter, rcommit := none,
                               parents := (match maxOf st.br.cur with | none => [] | some i => [i]),
                               rcommits := nm, bumps := pend, bn := fakeNM }
          .ok ({ rp1 with fakeCounter := st.rp.fakeCounter + 1 },
               { name := b.name, rheads := rheads, rbuilds := curBuilds ++ [fake], bnMap := st.br.bnMap })
        else
          .ok (rp1, { name := b.name, rheads := rheads, rbuilds := curBuilds, bnMap := st.br.bnMap })

/-- `_read_branch` -/
def readBranch {π β} (h : Hist π) (pl : Plug π β) (first : Bool) (rp : Repo β) (b : Branch) :
    Except Err (Repo β × RBranch β) :=
  match h.commits[b.head]? with
  | none => .error .keyError
  | some hc =>
    match visit h pl b.head h.commits.length (pl.relStep hc.time pl.relInit) ({ rp := rp, br := Br.empty }, []) b.head with
    | .error e => .error e
    | .ok (st, rheads) => endBranch pl first b st rheads

/-- `min_rbuild_timestamp` after the builds of one branch's `bn_map` are registered -/
def minTs (rcs : List RC) : Option Nat → List (BN × Nat) → Except Err (Option Nat)
  | m, [] => .ok m
  | m, (_, i) :: r =>
    match rcs[i]? with
    | none => .error .keyError
    | some rc => minTs rcs (some (match m with | none => rc.time | some x => min rc.time x)) r

/-- the obsolete-branch test of `RGraph.__init__` : every build found so far is more than
`_OBSOLETE_BRANCH_CUTOFF_PERIOD` younger than the head of the branch -/
def obsolete (mt : Option Nat) (headTime : Nat) : Bool :=
  match mt with
  | none => false
  | some m => decide (headTime + Gen.Ghist.obsoleteCutoff < m)

/-- place holder of a branch that was skipped as obsolete (it is not in `self.branches`) -/
def RBranch.skipped {β} (name : List Char) : RBranch β :=
  { name := name, rheads := [], rbuilds := [], bnMap := [] }

/-- the loop over the sorted branches; the result is in processing order.  `mt` is `min_rbuild_timestamp`,
`first` tells that no branch was read yet (`prev_branch is None`) -/
def readBranches {π β} (h : Hist π) (pl : Plug π β) : Option Nat → Bool → Repo β → List Branch →
    Except Err (Repo β × List (RBranch β) × Option Nat)
  | mt, _, rp, [] => .ok (rp, [], mt)
  | mt, first, rp, b :: bs =>
    match h.commits[b.head]? with
    | none => .error .keyError
    | some hc =>
      if obsolete mt hc.time then
        match readBranches h pl mt first rp bs with
        | .error e => .error e
        | .ok (rp2, rbs, mt2) => .ok (rp2, RBranch.skipped b.name :: rbs, mt2)
      else
        match readBranch h pl first rp b with
        | .error e => .error e
        | .ok (rp1, rb) =>
          match minTs rp1.rcs mt rb.bnMap with
          | .error e => .error e
          | .ok mt1 =>
            match readBranches h pl mt1 false rp1 bs with
            | .error e => .error e
            | .ok (rp2, rbs, mt2) => .ok (rp2, rb :: rbs, mt2)

/-- `RGraph` -/
structure Graph (β : Type) where
  rcs : List RC
  builds : List (RB β)          -- `self.brcommits` : every build that has a build commit, creation order
  all : List (RBranch β)        -- every release branch, processing order (lower-sorted first); skipped ones are empty
  branches : List (RBranch β)   -- `self.branches` : reversed, branches without builds dropped
  minTs : Option Nat            -- `min_rbuild_timestamp` : time of the oldest commit of a build in some `bn_map`

def branchesOf {π} (h : Hist π) : List Branch := sortBranches (releaseBranches h.remote h.refs)

def rgraph {π β} (h : Hist π) (pl : Plug π β) : Except Err (Graph β) :=
  match readBranches h pl none true Repo.empty (branchesOf h) with
  | .error e => .error e
  | .ok (rp, rbs, mt) =>
    .ok { rcs := rp.rcs, builds := rp.builds, all := rbs,
          branches := rbs.reverse.filter (fun rb => !rb.rbuilds.isEmpty), minTs := mt }

/-- the commit times are inside the window outside which a branch is treated as obsolete: no commit is more than
`_OBSOLETE_BRANCH_CUTOFF_PERIOD` younger than the head of a release branch -/
def Hist.InWindow {π} (h : Hist π) : Prop :=
  ∀ b ∈ branchesOf h, ∀ hc, h.commits[b.head]? = some hc →
    ∀ (c : Nat) (cm : Commit π), h.commits[c]? = some cm → cm.time ≤ hc.time + Gen.Ghist.obsoleteCutoff

/-! ## the report (what `get_rbuilds_list` / `get_printable_rcommits` show) -/

structure RepBuild where
  notMerged : Bool            -- `build_num.is_fake_not_merged()`
  bn : BN
  commit : Option Nat         -- commit of the build's `RCommit`
  commits : List Nat          -- the explicit commits listed under the build, in printed order
  deriving DecidableEq, Repr

structure RepBranch where
  name : List Char
  builds : List RepBuild
  deriving DecidableEq, Repr

def descending (l : List Nat) : List Nat := sortBy (fun a b => b < a) l

/-- commits of the explicit report commits among `iids` -/
def explicitCommits (rcs : List RC) : List Nat → List Nat
  | [] => []
  | i :: is =>
    match rcs[i]? with
    | some rc => (if rc.explicit then [rc.commit] else []) ++ explicitCommits rcs is
    | none => explicitCommits rcs is

def repBuild {β} (rcs : List RC) (b : RB β) : RepBuild :=
  { notMerged := b.rcommit.isNone, bn := b.bn,
    commit := b.rcommit.bind (fun i => rcs[i]?.map (·.commit)),
    commits := explicitCommits rcs (descending b.rcommits) }

/-- `get_rbuilds_list` : builds by descending iid -/
def buildsList {β} (rb : RBranch β) : List (RB β) :=
  sortBy (fun a b => b.iid < a.iid) rb.rbuilds

def repBranch {β} (rcs : List RC) (rb : RBranch β) : RepBranch :=
  { name := rb.name, builds := (buildsList rb).map (repBuild rcs) }

def report {π β} (h : Hist π) (pl : Plug π β) : Except Err (List RepBranch) :=
  match rgraph h pl with
  | .error e => .error e
  | .ok g => .ok (g.branches.map (repBranch g.rcs))

end Ghist
