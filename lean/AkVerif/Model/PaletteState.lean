import AkVerif.Model.Render
/-!
State machine of the palettes and caches that sit between a colours configuration and the output
(C10): `/repo/ak/color.py` `ColorsConfig` (`syntax_map`, `registered_sources`, `_cache`,
`add_new_items`, `get_color`), `_PaletteMeta.__call__`, `Palette._get_existing_palette /
_prepare_local_colors / _store_palette_in_cache / register_in_colors_conf`, the per-class
`_PALETTE_NO_COLOR`, `CompoundPalette._sub_palettes` / `SUB_PALETTES_MAP`, `_GLOBAL_COLORS_CONF` / `_GSYNCED_PALETTES`
(`global_palette`), `PaletteUser._mk_palette`, and `/repo/ak/ppobj.py` `PPEnumFieldType._cache`.

Identity matters here (a palette object is a cache key, and a freed address can be handed out
again), so palettes live in an explicit heap `Addr → Pal`:

* the allocator is a parameter (`alloc live`), any address that is not allocated may be returned;
* memory is released by `gc keepP keepC`: the adversary proposes the palettes / configurations to
  keep, the model accepts any proposal that is *closed* (contains everything the program still
  holds and everything reachable from what is kept) and frees the rest.  The least closed proposal
  is exactly what CPython frees after `del conf; gc.collect()`; every larger one is an earlier point
  of the same collection.  With `keyByObj` (the repaired `cache_key = field_palette`) the keys of the
  enum caches are references and must be kept; with `id(field_palette)` they are plain numbers.

`Conf.closed` is a ghost flag (never read by an operation): it records whether every description of
the configuration was resolved when the configuration was created (no reference to a syntax id that
only a palette class registers later).
-/
namespace PaletteState
open Ak Render

abbrev SyntId := List Char
abbrev ClassId := Nat
abbrev ConfId := Nat
abbrev EnumId := Nat
abbrev Addr := Nat

/-- colour part of a description: `""` (default / inherit), `"-"` (terminal colour), or a concrete
colour given by the SGR element the package makes of it (`31`, `48:5:200`, …) -/
inductive Spec where
  | inherit | system | elem (e : List Char)
  deriving DecidableEq, Repr

/-- parsed colour description `PARENT:FG/BG:modifiers` (`_ColorConfColorDescr._parse_init_str`);
`mods` = bold, faint, underline, blink, crossed, each unset / `no_x` / `x` -/
structure Descr where
  parent : Option SyntId
  fg : Spec
  bg : Spec
  mods : List (Option Bool)
  deriving DecidableEq, Repr

structure Attr where
  fg : Option (List Char)
  bg : Option (List Char)
  mods : List (Option Bool)
  deriving DecidableEq, Repr

def specOwn : Spec → Option (List Char)
  | .elem e => some e
  | _ => none

def specOver (s : Spec) (par : Option (List Char)) : Option (List Char) :=
  match s with
  | .inherit => par
  | .system => none
  | .elem e => some e

/-- `_ColorConfColorDescr.resolve(None)` -/
def ownAttr (d : Descr) : Attr := ⟨specOwn d.fg, specOwn d.bg, d.mods⟩
/-- `_ColorConfColorDescr.resolve(parent)`: own colours win, `""` inherits, `{**parent.modifiers, **self.modifiers}` -/
def overlay (d : Descr) (p : Attr) : Attr :=
  ⟨specOver d.fg p.fg, specOver d.bg p.bg, List.zipWith (fun o q => o.orElse fun _ => q) d.mods p.mods⟩

def modCodes : List (List Char) := [['1'], ['2'], ['4'], ['5'], ['9']]

def codesOf (a : Attr) : List (List Char) :=
  a.fg.toList ++ (a.bg.toList ++
    (List.zip a.mods modCodes).filterMap fun mc => if mc.1 = some true then some mc.2 else none)

/-- `_ColorSequences.make` -/
def prefixOf (a : Attr) : Color :=
  match codesOf a with
  | [] => []
  | cs => esc :: '[' :: ([';'].intercalate cs ++ ['m'])

abbrev SMap := List (SyntId × Descr)

/-- colour attributes of a syntax id: the chain of parents must end inside the map -/
def resolve (m : SMap) : Nat → SyntId → Option Attr
  | 0, _ => none
  | f+1, x =>
    match m.lookup x with
    | none => none
    | some d =>
      match d.parent with
      | none => some (ownAttr d)
      | some p => (resolve m f p).map (overlay d)

/-- the parent chain from `x` ends (at a root or outside the map) within `fuel` steps -/
def chainEnds (m : SMap) : Nat → SyntId → Bool
  | 0, _ => false
  | f+1, x =>
    match m.lookup x with
    | none => true
    | some d =>
      match d.parent with
      | none => true
      | some p => chainEnds m f p

/-- no `assert False, "circular dependency detected"` -/
def acyclic (m : SMap) : Bool := m.all fun e => chainEnds m (m.length + 1) e.1

structure Conf where
  noColor : Bool
  smap : SMap
  registered : List ClassId
  cache : List (ClassId × Addr)
  /-- ghost: all descriptions were resolved at creation -/
  closed : Bool
  deriving DecidableEq, Repr

/-- `ColorsConfig.get_color` -/
def getColor (dflt : SyntId) (c : Conf) (x : SyntId) : Color :=
  let key := if (c.smap.lookup x).isSome then x else dflt
  match resolve c.smap (c.smap.length + 1) key with
  | none => []
  | some a => if c.noColor then [] else prefixOf a

def newItems (m items : SMap) : SMap := items.filter fun e => (m.lookup e.1).isNone

/-- `ColorsConfig.add_new_items`: the first registration of an id wins; the palette cache is dropped
when at least one id is new -/
def Conf.addItems (c : Conf) (items : SMap) : Conf :=
  match newItems c.smap items with
  | [] => c
  | n :: ns => { c with smap := c.smap ++ n :: ns, cache := [] }

structure ClassInfo where
  compound : Bool
  parents : List ClassId
  defaults : Option SMap
  localSyntax : List SyntId
  /-- `SUB_PALETTES_MAP` of a compound palette class: requested palette class ↦ the class used instead -/
  subMap : List (ClassId × ClassId)
  deriving Repr

/-- `self.SUB_PALETTES_MAP.get(palette_class, palette_class)` -/
def ClassInfo.actual (ci : ClassInfo) (c : ClassId) : ClassId :=
  match ci.subMap.lookup c with
  | some a => a
  | none => c

structure Cfg where
  dfltId : SyntId
  builtin : SMap
  classes : List ClassInfo
  gpClass : ClassId
  keyByObj : Bool

/-- `Palette.register_in_colors_conf` -/
def register (cfg : Cfg) : Nat → ClassId → Conf → Except Err Conf
  | 0, _, _ => .error .outOfFuel
  | f+1, cls, c =>
    if c.registered.contains cls then .ok c else
    match cfg.classes[cls]? with
    | none => .error .keyError
    | some ci => do
      let c1 ← ci.parents.foldlM (fun acc p => register cfg f p acc) c
      match ci.defaults with
      | none => .ok c1
      | some d => .ok (({ c1 with registered := cls :: c1.registered } : Conf).addItems d)

def registerCls (cfg : Cfg) (cls : ClassId) (c : Conf) : Except Err Conf :=
  register cfg (cfg.classes.length + 1) cls c

structure Pal where
  cls : ClassId
  conf : ConfId
  noColor : Bool
  colors : List Color
  deriving DecidableEq, Repr

abbrev EnumCache := List ((Addr × Nat) × List Color)
abbrev ResId := Nat
abbrev IterId := Nat

/-- one generated line of a lazily produced text: the sub-palettes the generator asks for
(`get_sub_palette`) since the previous line, and the line -/
structure LLine where
  reqs : List ClassId
  line : SLine
  deriving Repr

/-- `CHTextResult(ppobj, cp)`: the object (its lines), the palette object made when the result was
requested, and the memoised whole text (`_ch_text`) -/
structure Res where
  p : Addr
  conf : ConfId
  top : ClassId
  nc : Bool
  lines : List LLine
  memo : Option (List Chunk)
  deriving Repr

/-- a suspended generator `ppobj.gen_ch_lines(cp)`: the palette and the lines not yet generated -/
structure Iter where
  p : Addr
  conf : ConfId
  top : ClassId
  nc : Bool
  rest : List LLine
  deriving Repr

structure State where
  confs : List (ConfId × Conf)
  /-- configurations the program (the history) still refers to -/
  held : List ConfId
  global : ConfId
  heap : List (Addr × Pal)
  subs : List ((Addr × ClassId) × Addr)
  ncCache : List (ClassId × Addr)
  enums : List (EnumId × EnumCache)
  /-- attributes of the synced `global_palette` -/
  gp : List Color
  /-- attributes of the other palettes synced with the global configuration (`P(synced=True)`, `_GSYNCED_PALETTES`) -/
  synced : List (ClassId × List Color)
  /-- lazy results (`CHTextResult`) the program holds -/
  results : List (ResId × Res)
  /-- line iterators (`iter(result)`: suspended `gen_ch_lines` generators) the program holds -/
  iters : List (IterId × Iter)
  deriving Repr

abbrev Alloc := List Addr → Addr

def getConf (s : State) (k : ConfId) : Except Err Conf :=
  match s.confs.lookup k with
  | some c => .ok c
  | none => .error .keyError

/-- the class of the sub-palette a compound palette of class `top` makes when it is asked for class `c` -/
def subCls (cfg : Cfg) (top c : ClassId) : ClassId :=
  match cfg.classes[top]? with
  | some ci => ci.actual c
  | none => c

def getClass (cfg : Cfg) (cls : ClassId) : Except Err ClassInfo :=
  match cfg.classes[cls]? with
  | some ci => .ok ci
  | none => .error .keyError

def getPal (s : State) (a : Addr) : Except Err Pal :=
  match s.heap.lookup a with
  | some p => .ok p
  | none => .error .keyError

/-- colours a palette of this class reads from the configuration (`_prepare_local_colors`) -/
def snapshot (cfg : Cfg) (ci : ClassInfo) (c : Conf) : List Color :=
  ci.localSyntax.map (getColor cfg.dfltId c)

/-- `set_global_colors_config` → `GlobalPalette._sync_with_config` -/
def syncGp (cfg : Cfg) (s : State) : State :=
  match s.confs.lookup s.global, cfg.classes[cfg.gpClass]? with
  | some c, some ci =>
    { s with gp := snapshot cfg ci c,
             synced := s.synced.map fun e => match cfg.classes[e.1]? with
               | some cj => (e.1, snapshot cfg cj c)
               | none => e }
  | _, _ => s

def putConf (s : State) (k : ConfId) (c : Conf) : State :=
  { s with confs := (k, c) :: s.confs.filter fun e => e.1 ≠ k }

/-- store the updated configuration; a change of the global configuration's syntax map re-syncs the
synced palette (`if any_modifications and self is _GLOBAL_COLORS_CONF`) -/
def setConf (cfg : Cfg) (s : State) (k : ConfId) (old new : Conf) : State :=
  let s1 := putConf s k new
  if k = s.global ∧ new.smap.length ≠ old.smap.length then syncGp cfg s1 else s1

/-- a new palette object at address `a` -/
def allocPal (s : State) (a : Addr) (p : Pal) : State := { s with heap := (a, p) :: s.heap }

/-- `colors_conf.put_into_cache(cls, palette)` -/
def cachePal (s : State) (k : ConfId) (cls : ClassId) (a : Addr) : State :=
  match s.confs.lookup k with
  | some c => putConf s k { c with cache := (cls, a) :: c.cache }
  | none => s

/-- `cls._PALETTE_NO_COLOR = palette` -/
def cacheNc (s : State) (cls : ClassId) (a : Addr) : State := { s with ncCache := (cls, a) :: s.ncCache }

/-- `_PaletteMeta.__call__(palette_class, colors_conf, no_color)` (not synced) -/
def mkPalette (cfg : Cfg) (alloc : Alloc) (cls : ClassId) (k : ConfId) (nc : Bool) (s : State) :
    Except Err (State × Addr) := do
  let ci ← getClass cfg cls
  let c ← getConf s k
  if nc then
    -- `_get_existing_palette`: the class is registered even when the palette exists
    let c' ← registerCls cfg cls c
    let s1 := setConf cfg s k c c'
    match s1.ncCache.lookup cls with
    | some a => .ok (s1, a)
    | none =>
      let a := alloc (s1.heap.map Prod.fst)
      .ok (cacheNc (allocPal s1 a ⟨cls, k, true, ci.localSyntax.map fun _ => []⟩) cls a, a)
  else
    match c.cache.lookup cls with
    | some a => .ok (s, a)
    | none =>
      -- `_prepare_local_colors`: register, then read the colours; `_store_palette_in_cache`
      let c' ← registerCls cfg cls c
      let s1 := setConf cfg s k c c'
      let a := alloc (s1.heap.map Prod.fst)
      .ok (cachePal (allocPal s1 a ⟨cls, k, false, snapshot cfg ci c'⟩) k cls a, a)

/-- `self._sub_palettes[(cls, None)] = palette` -/
def memoSub (s : State) (p : Addr) (c : ClassId) (b : Addr) : State := { s with subs := ((p, c), b) :: s.subs }

/-- `CompoundPalette.get_sub_palette(palette_class)`: memoised under the *requested* class; the palette made
is of the class `SUB_PALETTES_MAP` substitutes (empty in the package, non-empty in customised palette classes),
from the compound palette's own configuration and with its own `no_color` -/
def getSub (cfg : Cfg) (alloc : Alloc) (p : Addr) (c : ClassId) (s : State) : Except Err (State × Addr) := do
  let pp ← getPal s p
  let ci ← getClass cfg pp.cls
  if !ci.compound then .error .attributeError else
  match s.subs.lookup (p, c) with
  | some b => .ok (s, b)
  | none =>
    let (s1, b) ← mkPalette cfg alloc (ci.actual c) pp.conf pp.noColor s
    .ok (memoSub s1 p c b, b)

def getSubs (cfg : Cfg) (alloc : Alloc) (p : Addr) : List ClassId → State → Except Err State
  | [], s => .ok s
  | c :: cs, s => do
    let (s1, _) ← getSub cfg alloc p c s
    getSubs cfg alloc p cs s1

def nth (l : List Color) (i : Nat) : Except Err Color :=
  match l[i]? with
  | some c => .ok c
  | none => .error .indexError

def subAddr (s : State) (p : Addr) (c : ClassId) : Except Err Addr :=
  match s.subs.lookup (p, c) with
  | some a => .ok a
  | none => .error .keyError

/-- the colour the real code gives to a chunk with this tag, `p` being the object's own palette -/
def tagColor (s : State) (p : Addr) (top : ClassId) : Tag → Except Err Color
  | .plain => .ok []
  | .pal c i => do
    let a ← if c = top then .ok p else subAddr s p c
    let pa ← getPal s a
    nth pa.colors i
  | .enum e v c i => do
    let a ← subAddr s p c
    match s.enums.lookup e with
    | none => .error .keyError
    | some ec =>
      match ec.lookup (a, v) with
      | some cols => nth cols i          -- cached cell: the colours it was made with
      | none => do
        let pa ← getPal s a
        nth pa.colors i

/-- `PPEnumFieldType._make_text_cache_for_val`: a cell that is not cached is cached under the key
of the field palette in use -/
def fillOne (s : State) (p : Addr) : Tag → State
  | .enum e v c _ =>
    match s.subs.lookup (p, c), s.enums.lookup e with
    | some a, some ec =>
      match ec.lookup (a, v), s.heap.lookup a with
      | none, some pa =>
        { s with enums := (e, ((a, v), pa.colors) :: ec) :: s.enums.filter fun x => x.1 ≠ e }
      | _, _ => s
    | _, _ => s
  | _ => s

structure Shape where
  /-- `PALETTE_CLASS` of the object -/
  top : ClassId
  /-- classes passed to `get_sub_palette`, in the order of the calls -/
  subs : List ClassId
  lines : List SLine
  deriving Repr

def Shape.tags (sh : Shape) : List Tag := sh.lines.flatMap fun l => l.chunks.map (·.tag)

def colorChunks (s : State) (p : Addr) (top : ClassId) : List SChunk → Except Err (List Chunk)
  | [] => .ok []
  | ch :: rest => do
    let col ← tagColor s p top ch.tag
    let cs ← colorChunks s p top rest
    .ok (⟨col, ch.text⟩ :: cs)

def colorLines (s : State) (p : Addr) (top : ClassId) : List SLine → Except Err (List (List Chunk))
  | [] => .ok []
  | l :: rest => do
    let cs ← colorChunks s p top l.chunks
    let ls ← colorLines s p top rest
    .ok ((match l.kind with | .raw => cs | .made => mergeAdj cs) :: ls)

/-- `obj.ch_text(no_color=nc, colors_conf=k)` consumed completely: the generated lines -/
def render (cfg : Cfg) (alloc : Alloc) (k : ConfId) (nc : Bool) (sh : Shape) (s : State) :
    Except Err (State × List (List Chunk)) := do
  let (s1, p) ← mkPalette cfg alloc sh.top k nc s
  let s2 ← getSubs cfg alloc p sh.subs s1
  let lines ← colorLines s2 p sh.top sh.lines
  .ok (sh.tags.foldl (fun st t => fillOne st p t) s2, lines)

/-! ### lazy results -/

/-- the generator produces one more line: the sub-palettes are requested now, the cells are taken
from / put into the enum cell cache now -/
def stepLine (cfg : Cfg) (alloc : Alloc) (p : Addr) (top : ClassId) (l : LLine) (s : State) :
    Except Err (State × List Chunk) := do
  let s1 ← getSubs cfg alloc p l.reqs s
  let cs ← colorChunks s1 p top l.line.chunks
  .ok ((l.line.chunks.map (·.tag)).foldl (fun st t => fillOne st p t) s1,
       match l.line.kind with | .raw => cs | .made => mergeAdj cs)

def stepLines (cfg : Cfg) (alloc : Alloc) (p : Addr) (top : ClassId) : List LLine → State →
    Except Err (State × List (List Chunk))
  | [], s => .ok (s, [])
  | l :: rest, s => do
    let (s1, out) ← stepLine cfg alloc p top l s
    let (s2, outs) ← stepLines cfg alloc p top rest s1
    .ok (s2, out :: outs)

/-- `r = obj.ch_text(no_color=nc, colors_conf=k)`: only the palette is made now -/
def mkRes (cfg : Cfg) (alloc : Alloc) (r : ResId) (k : ConfId) (nc : Bool) (top : ClassId) (lines : List LLine)
    (s : State) : Except Err State := do
  let (s1, p) ← mkPalette cfg alloc top k nc s
  .ok { s1 with results := (r, ⟨p, k, top, nc, lines, none⟩) :: s1.results.filter fun x => x.1 ≠ r }

/-- `str(r)`: the text is made at the first request and memoised -/
def strRes (cfg : Cfg) (alloc : Alloc) (r : ResId) (s : State) : Except Err (State × List Chunk) :=
  match s.results.lookup r with
  | none => .error .keyError
  | some res =>
    match res.memo with
    | some w => .ok (s, w)
    | none => do
      let (s1, ls) ← stepLines cfg alloc res.p res.top res.lines s
      let w := wholeOf '\n' ls
      .ok ({ s1 with results := (r, { res with memo := some w }) :: s1.results.filter fun x => x.1 ≠ r }, w)

/-- `it = iter(r)`: a new generator, nothing runs yet -/
def mkIter (i : IterId) (r : ResId) (s : State) : Except Err State :=
  match s.results.lookup r with
  | none => .error .keyError
  | some res => .ok { s with iters := (i, ⟨res.p, res.conf, res.top, res.nc, res.lines⟩) :: s.iters.filter fun x => x.1 ≠ i }

/-- `[next(it) for _ in range(n)]` (fewer when the generator is exhausted) -/
def nextIter (cfg : Cfg) (alloc : Alloc) (i : IterId) (n : Nat) (s : State) : Except Err (State × List (List Chunk)) :=
  match s.iters.lookup i with
  | none => .error .keyError
  | some it => do
    let (s1, outs) ← stepLines cfg alloc it.p it.top (it.rest.take n) s
    .ok ({ s1 with iters := (i, { it with rest := it.rest.drop n }) :: s1.iters.filter fun x => x.1 ≠ i }, outs)

/-! ### configurations -/

def emptyConf (nc : Bool) : Conf := ⟨nc, [], [], [], false⟩

/-- every syntax of the map has a colour (`color_fmt is not None` for all of them) -/
def allResolved (m : SMap) : Bool := m.all fun e => (resolve m (m.length + 1) e.1).isSome

def validElem (e : List Char) : Bool := !e.isEmpty && e.all fun c => c.isDigit || c == ':'

def Spec.wf : Spec → Bool
  | .elem e => validElem e
  | _ => true

def Descr.wf (d : Descr) : Bool := d.fg.wf && d.bg.wf && d.mods.length == 5

/-- everything the configuration can ever contain: its own items, the built-in ones, the defaults of
all palette classes (first registration wins, so the order of the classes does not matter for the
ids of a cycle) -/
def eventualMap (cfg : Cfg) (items : SMap) : SMap :=
  let m := items ++ newItems items cfg.builtin
  cfg.classes.foldl (fun acc ci => match ci.defaults with
    | none => acc
    | some d => acc ++ newItems acc d) m

/-- `ColorsConfig(init_config, no_color=nc)`; `.assertion` = circular descriptions; `.outOfFuel` =
a cycle that would appear only when a palette class registers its defaults (the code then fails in
the middle of a rendering; not modelled) -/
def mkConf (cfg : Cfg) (nc : Bool) (items : SMap) : Except Err Conf :=
  if !(items.all fun e => e.2.wf) then .error .valueError else
  let c := ((emptyConf nc).addItems items).addItems cfg.builtin
  if !acyclic c.smap then .error .assertion else
  if !acyclic (eventualMap cfg items) then .error .outOfFuel else
  .ok { c with closed := allResolved c.smap }

def newConf (cfg : Cfg) (k : ConfId) (nc : Bool) (items : SMap) (s : State) : Except Err State := do
  if (s.confs.lookup k).isSome then .error .keyError else
  let c ← mkConf cfg nc items
  .ok { s with confs := (k, c) :: s.confs, held := k :: s.held }

def dropConf (k : ConfId) (s : State) : State := { s with held := s.held.filter (· ≠ k) }

/-- `palette._sync_with_config(conf)` registers the class of every synced palette in the new configuration -/
def regSynced (cfg : Cfg) (k : ConfId) : List ClassId → State → State
  | [], s => s
  | cls :: rest, s =>
    match s.confs.lookup k with
    | none => s
    | some c =>
      match registerCls cfg cls c with
      | .ok c' => regSynced cfg k rest (setConf cfg s k c c')
      | .error _ => regSynced cfg k rest s

/-- `set_global_colors_config(conf)` -/
def setGlobal (cfg : Cfg) (k : ConfId) (s : State) : Except Err State := do
  let _ ← getConf s k
  let s1 := regSynced cfg k (s.synced.map (·.1)) s
  .ok (syncGp cfg { s1 with global := k })

/-- `PaletteClass(synced=True)`: the one palette of this class that follows the global configuration -/
def mkSynced (cfg : Cfg) (cls : ClassId) (s : State) : Except Err State := do
  let ci ← getClass cfg cls
  if ci.compound then .error .assertion else
  match s.synced.lookup cls with
  | some _ => .ok s
  | none =>
    let c ← getConf s s.global
    let c' ← registerCls cfg cls c
    let s1 := setConf cfg s s.global c c'
    .ok { s1 with synced := (cls, snapshot cfg ci c') :: s1.synced }

/-- colours of a rendering made with the synced palette object of class `cls` (no sub-palettes, no enum cells) -/
def syncedColor (s : State) (cls : ClassId) : Tag → Except Err Color
  | .plain => .ok []
  | .pal c i =>
    if c = cls then
      match s.synced.lookup cls with
      | some cols => nth cols i
      | none => .error .keyError
    else .error .attributeError
  | .enum _ _ _ _ => .error .attributeError

def syncedChunks (s : State) (cls : ClassId) : List SChunk → Except Err (List Chunk)
  | [] => .ok []
  | ch :: rest => do
    let col ← syncedColor s cls ch.tag
    let cs ← syncedChunks s cls rest
    .ok (⟨col, ch.text⟩ :: cs)

def syncedLines (s : State) (cls : ClassId) : List SLine → Except Err (List (List Chunk))
  | [] => .ok []
  | l :: rest => do
    let cs ← syncedChunks s cls l.chunks
    let ls ← syncedLines s cls rest
    .ok ((match l.kind with | .raw => cs | .made => mergeAdj cs) :: ls)

def newEnum (e : EnumId) (s : State) : Except Err State :=
  if (s.enums.lookup e).isSome then .error .keyError else .ok { s with enums := (e, []) :: s.enums }

def dropEnum (e : EnumId) (s : State) : State := { s with enums := s.enums.filter fun x => x.1 ≠ e }

/-! ### memory -/

def gcOk (cfg : Cfg) (s : State) (keepP : List Addr) (keepC : List ConfId) : Bool :=
  s.held.all (keepC.contains ·) && keepC.contains s.global
  && s.ncCache.all (fun e => keepP.contains e.2)
  && (!cfg.keyByObj || s.enums.all fun e => e.2.all fun en => keepP.contains en.1.1)
  && s.heap.all (fun e => !keepP.contains e.1 || keepC.contains e.2.conf)
  && s.subs.all (fun e => !keepP.contains e.1.1 || keepP.contains e.2)
  && s.confs.all (fun e => !keepC.contains e.1 || e.2.cache.all fun ce => keepP.contains ce.2)
  && s.results.all (fun e => keepP.contains e.2.p)
  && s.iters.all (fun e => keepP.contains e.2.p)

def gc (cfg : Cfg) (keepP : List Addr) (keepC : List ConfId) (s : State) : State :=
  if gcOk cfg s keepP keepC then
    { s with confs := s.confs.filter fun e => keepC.contains e.1,
             heap := s.heap.filter fun e => keepP.contains e.1,
             subs := s.subs.filter fun e => keepP.contains e.1.1 }
  else s

/-! ### histories -/

inductive Op where
  | newConf (k : ConfId) (nc : Bool) (items : SMap)
  | dropConf (k : ConfId)
  | gc (keepP : List Addr) (keepC : List ConfId)
  | setGlobal (k : ConfId)
  | newEnum (e : EnumId)
  | dropEnum (e : EnumId)
  | render (k : ConfId) (nc : Bool) (sh : Shape)
  | mkRes (r : ResId) (k : ConfId) (nc : Bool) (top : ClassId) (lines : List LLine)
  | strRes (r : ResId)
  | mkIter (i : IterId) (r : ResId)
  | nextIter (i : IterId) (n : Nat)
  /-- `PaletteClass(colors_conf=k)` called by the program itself (a palette object passed as `palette=`) -/
  | mkPal (k : ConfId) (cls : ClassId)
  /-- `PaletteClass(synced=True)` -/
  | mkSynced (cls : ClassId)

/-- an operation that raises leaves the state as it was -/
def step (cfg : Cfg) (alloc : Alloc) (s : State) : Op → State
  | .newConf k nc items => match newConf cfg k nc items s with | .ok s' => s' | .error _ => s
  | .dropConf k => dropConf k s
  | .gc kp kc => gc cfg kp kc s
  | .setGlobal k => match setGlobal cfg k s with | .ok s' => s' | .error _ => s
  | .newEnum e => match newEnum e s with | .ok s' => s' | .error _ => s
  | .dropEnum e => dropEnum e s
  | .render k nc sh => match render cfg alloc k nc sh s with | .ok (s', _) => s' | .error _ => s
  | .mkRes r k nc top lines => match mkRes cfg alloc r k nc top lines s with | .ok s' => s' | .error _ => s
  | .strRes r => match strRes cfg alloc r s with | .ok (s', _) => s' | .error _ => s
  | .mkIter i r => match mkIter i r s with | .ok s' => s' | .error _ => s
  | .nextIter i n => match nextIter cfg alloc i n s with | .ok (s', _) => s' | .error _ => s
  | .mkPal k cls => match mkPalette cfg alloc cls k false s with | .ok (s', _) => s' | .error _ => s
  | .mkSynced cls => match mkSynced cfg cls s with | .ok s' => s' | .error _ => s

def run (cfg : Cfg) (alloc : Alloc) (s : State) (ops : List Op) : State := ops.foldl (step cfg alloc) s

def emptyState : State := ⟨[], [], 0, [], [], [], [], [], [], [], []⟩

/-- fresh interpreter: the global configuration (number 0) is `ColorsConfig()`, `global_palette` synced -/
def initState (cfg : Cfg) : State :=
  match mkConf cfg false [] with
  | .ok c => syncGp cfg { emptyState with confs := [(0, c)], held := [] }
  | .error _ => emptyState

/-! ### what the driver needs on top: the collector and an allocator -/

def closeStep (cfg : Cfg) (s : State) (kp : List Addr) (kc : List ConfId) : List Addr × List ConfId :=
  let kc' := (kc ++ (s.heap.filter fun e => kp.contains e.1).map fun e => e.2.conf).eraseDups
  let kp' := (kp ++ ((s.subs.filter fun e => kp.contains e.1.1).map fun e => e.2)
      ++ ((s.confs.filter fun e => kc'.contains e.1).flatMap fun e => e.2.cache.map fun ce => ce.2)).eraseDups
  let _ := cfg
  (kp', kc')

def closeIter (cfg : Cfg) (s : State) : Nat → List Addr → List ConfId → List Addr × List ConfId
  | 0, kp, kc => (kp, kc)
  | f+1, kp, kc =>
    let (kp', kc') := closeStep cfg s kp kc
    if kp'.length = kp.length ∧ kc'.length = kc.length then (kp, kc) else closeIter cfg s f kp' kc'

/-- what the program still refers to directly -/
def roots (cfg : Cfg) (s : State) : List Addr × List ConfId :=
  ((s.ncCache.map (·.2) ++ s.results.map (·.2.p) ++ s.iters.map (·.2.p)
      ++ (if cfg.keyByObj then s.enums.flatMap fun e => e.2.map fun en => en.1.1 else [])).eraseDups,
   (s.global :: s.held).eraseDups)

/-- `gc.collect()`: keep exactly what is reachable -/
def collect (cfg : Cfg) (s : State) : State :=
  let (kp, kc) := roots cfg s
  let (kp', kc') := closeIter cfg s (s.heap.length + s.confs.length + 2) kp kc
  gc cfg kp' kc' s

def firstFreeGo (l : List Addr) : Nat → Nat → Nat
  | 0, n => n
  | f+1, n => if l.contains n then firstFreeGo l f (n + 1) else n

/-- reuse the smallest free address (CPython hands a just freed block out again) -/
def reuseAlloc : Alloc := fun l =>
  let r := firstFreeGo l (l.length + 1) 0
  if l.contains r then l.foldl max 0 + 1 else r

end PaletteState
